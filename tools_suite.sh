#!/bin/sh
# run pacti's own suite against a source tree (default /repo): with PYTHONPATH=<tree>/src (the meaningful reading:
# /venv's site-packages holds a different pacti), then the baseline command as recorded in BASELINE.json
T=${1:-/repo}
cd $T && PYTHONPATH=$T/src /venv/bin/python -m pytest -q -p no:cacheprovider --timeout=900 2>&1 | grep -E "passed|failed|error" | tail -3
cd $T && /venv/bin/python -m pytest -q -p no:cacheprovider --timeout=900 2>&1 | grep -E "passed|failed|error" | tail -3
