"""Evaluate a behaviour-changing but property-preserving ("benign") change: every listed check must stay silent (exit 0).
usage: tools_benign.py <worktree> <label> <diff> checks...   -> /verif/benign/<label>/{patch.diff, meta.json, agent_notes.md}"""
import json, os, shutil, subprocess, sys, time
wt, label, diff = sys.argv[1], sys.argv[2], sys.argv[3]
checks = sys.argv[4:]
env = dict(os.environ, PYTHONPATH=wt + '/src', PYTHONDONTWRITEBYTECODE='1', MPLBACKEND='Agg')
def sh(cmd): return subprocess.run(cmd, shell=True, cwd=wt, env=env, capture_output=True, text=True)
sh('git checkout -- .')
a = sh('git apply %s' % diff)
meta = {'label': label, 'applies': a.returncode == 0, 'base_commit': sh('git rev-parse HEAD').stdout.strip()}
if a.returncode:
    print('APPLY FAILED', a.stderr); sys.exit(3)
meta['suite_with'] = sh('/venv/bin/python -m pytest -q -p no:cacheprovider --timeout=900 2>&1 | tail -1').stdout.strip()
meta['checks'] = {}
for c in checks:
    t0 = time.time()
    r = subprocess.run('/venv/bin/python -m pv.run %s --tier quick' % c, shell=True, cwd='/verif', env=dict(os.environ, PV_REPO=wt), capture_output=True, text=True)
    lines = [l for l in r.stdout.splitlines() if l.startswith('VIOLATION')]
    what = ''
    if lines:
        try: what = json.load(open(lines[0].split('replay=')[1]))['violation'].get('what', '')[:300]
        except Exception as e: what = str(e)
    meta['checks'][c] = {'exit': r.returncode, 'violations': len(lines), 'first': what, 'stderr': r.stderr[-400:] if r.returncode else '', 'wall_s': round(time.time() - t0, 1)}
sh('git checkout -- .')
d = '/verif/benign/' + label
os.makedirs(d, exist_ok=True)
shutil.copy(diff, d + '/patch.diff')
if os.path.exists(wt + '/NOTES.md'): shutil.copy(wt + '/NOTES.md', d + '/agent_notes.md')
json.dump(meta, open(d + '/meta.json', 'w'), indent=1)
print(label, meta['suite_with'][:14], {k: (v['exit'], v['first'][:90]) for k, v in meta['checks'].items()}, flush=True)
