"""Evaluate one candidate property-breaking change delivered by a sub-agent in its scratch worktree.
usage: tools_seed.py <PID> <A|B> <check ids...>
 1. worktree clean -> demo must exit 0
 2. apply the diff -> existing suite must still pass (PYTHONPATH=<wt>/src) and demo must exit non-zero
 3. run the given checks (quick tier) against the patched worktree (PV_REPO=<wt>)
 4. revert; store /verif/seeded/<PID>-<X>/{patch.diff, demo.py, meta.json}
"""
import json, os, subprocess, sys, time, shutil
pid, x = sys.argv[1], sys.argv[2]
checks = sys.argv[3:]
wt = os.environ.get('SEED_WT', '/tmp/wt_%s' % pid)
label = os.environ.get('SEED_LABEL', '%s-%s' % (pid, x))
diff = '%s/mut%s.diff' % (wt, x)
demo = '%s/mut%s_demo.py' % (wt, x)
env = dict(os.environ, PYTHONPATH=wt + '/src', PYTHONDONTWRITEBYTECODE='1')
def sh(cmd, **kw):
    return subprocess.run(cmd, shell=True, cwd=wt, env=env, capture_output=True, text=True, **kw)
meta = {'property': pid, 'variant': x, 'base_commit': sh('git rev-parse HEAD').stdout.strip()}
sh('git checkout -- .')
r = sh('/venv/bin/python %s' % demo); meta['demo_without'] = r.returncode
a = sh('git apply %s' % diff)
if a.returncode: print('APPLY FAILED', a.stderr); sys.exit(3)
t = sh('/venv/bin/python -m pytest -q -p no:cacheprovider --timeout=900 2>&1 | tail -1'); meta['suite_with'] = t.stdout.strip()
r = sh('/venv/bin/python %s' % demo); meta['demo_with'] = r.returncode; meta['demo_tail'] = (r.stdout + r.stderr)[-600:]
meta['checks'] = {}
for c in checks:
    e2 = dict(os.environ, PV_REPO=wt, VERIF_SEED=os.environ.get('VERIF_SEED', '0'))
    t0 = time.time()
    r = subprocess.run('/venv/bin/python -m pv.run %s --tier quick' % c, shell=True, cwd='/verif', env=e2, capture_output=True, text=True)
    lines = [l for l in r.stdout.splitlines() if l.startswith('VIOLATION')]
    what = ''
    if lines:
        try:
            d = json.load(open(lines[0].split('replay=')[1])); what = d['violation'].get('what', '')[:200]
        except Exception as e: what = str(e)
    meta['checks'][c] = {'exit': r.returncode, 'violations': len(lines), 'first': what, 'wall_s': round(time.time() - t0, 1),
                         'stderr': r.stderr[-300:] if r.returncode == 2 else ''}
sh('git checkout -- .')
meta['diff_stat'] = sh('git apply --stat %s' % diff).stdout.strip()
d = '/verif/seeded/' + label
os.makedirs(d, exist_ok=True)
shutil.copy(diff, d + '/patch.diff'); shutil.copy(demo, d + '/demo.py')
notes = wt + '/NOTES.md'
if os.path.exists(notes): shutil.copy(notes, d + '/agent_notes.md')
json.dump(meta, open(d + '/meta.json', 'w'), indent=1)
print(json.dumps(meta, indent=1))
