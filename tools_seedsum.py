import json,glob,sys
for f in sorted(glob.glob('/verif/seeded/*/meta.json')):
    d=json.load(open(f))
    ok = d['suite_with'].startswith('144 passed') and d['demo_without']==0 and d['demo_with']!=0
    caught=[k for k,v in d['checks'].items() if v['exit']==1]
    broken=[k for k,v in d['checks'].items() if v['exit'] not in (0,1)]
    import os
    print('%s valid=%s caught_by=%s missed_by=%s %s' % (os.path.basename(os.path.dirname(f)),ok,caught,[k for k,v in d['checks'].items() if v['exit']==0], ('BROKEN:'+str(broken)) if broken else ''))
