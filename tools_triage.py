"""triage helper: run a check and print violations grouped by a key (development aid, not a registered check)"""
import sys, json, collections, importlib
sys.path.insert(0, '/verif')
from pv import loader
loader.reexec_if_needed(); loader.bootstrap()
from pv import engine
pid, tier = sys.argv[1], sys.argv[2]
mod = importlib.import_module('pv.checks.' + pid.lower())
m = engine.explore(mod, tier, int(sys.argv[3]) if len(sys.argv) > 3 else 0)
print({k: m[k] for k in ('evaluations','cases','space','nviol','capped','wall_s')})
print(dict(m['outcomes']))
g = collections.defaultdict(list)
for v in m['violations']:
    vi = v['violation']
    key = (vi['what'][:60], str(vi.get('tactics')), str(vi['sub'].get('order')) if isinstance(vi.get('sub'), dict) else '')
    g[key].append(v)
for k, vs in sorted(g.items(), key=lambda kv: -len(kv[1])):
    vs.sort(key=lambda v: len(json.dumps(v['case'])))
    print(len(vs), k)
    print('    ', json.dumps(vs[0]['case']), json.dumps(vs[0]['violation'].get('sub')), json.dumps(vs[0]['violation'].get('result')), vs[0]['violation'].get('witness'))
