#!/bin/bash
# Evaluate wave-6 candidates: tools_wave6.sh <PID> <A|B> <checks...>   (worktree /tmp/wt_W6<PID>, label W6<PID>-<X>)
pid=$1; x=$2; shift 2
export SEED_WT=/tmp/wt_W6$pid SEED_LABEL=W6$pid-$x PV_BUDGET_S=${PV_BUDGET_S:-600}
exec /venv/bin/python /verif/tools_seed.py $pid $x "$@" > /tmp/w6_$pid$x.log 2>&1
