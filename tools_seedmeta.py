"""attach a one-line summary / what-it-needs to every /verif/seeded/*/meta.json (texts condensed from the sub-agents' notes)"""
import json, os
M = {
 'C01-A': ('compose: consumer assumptions relaxed instead of refined in the branch "other helps self"', 'cascade composed in the reverse call order, consumer assumption on the internal variable not implied by the producer'),
 'C01-B': ('tactic 1: Kaykobad sign test only on the diagonal variable', 'term with two eliminated variables, context rows with cross coefficients of the wrong sign whose product exceeds the diagonal'),
 'C02-A': ('quotient: guard assumptions.refines(other.a) weakened to the divisor assumptions over top-level inputs only', 'divisor with a private input it assumes something about'),
 'C02-B': ('tactic 2: polarity lost in the refine branch', 'refinement reaching tactic 2 with a non-zero LP optimum (variables bounded only jointly)'),
 'C03-A': ('IoContract.refines compares guarantees under the left assumptions', 'right assumptions strictly inside the left ones, guarantee inclusion only under the right assumptions'),
 'C03-B': ('verify_polytope_containment skips LPs that are not optimal (status 2)', 'separated pair with a gap larger than the LP slack of 1'),
 'C04-A': ('tactic 5 guard np.any -> np.all', 'mixed-sign multipliers among the first active rows, >=2 eliminated variables'),
 'C04-B': ('Kaykobad residual uses the sign of i_var instead of j_var', 'two eliminated variables with opposite signs in the term, non-dominant rows'),
 'C05-A': ('quotient: "| other.a" folded into the second try; lost when that refinement fails', 'second elimination raises ValueError (dividend assumptions contradict the divisor)'),
 'C05-B': ('compose: refinement context additionally contains the consumer guarantees (circular)', 'consumer guarantees that bound its own input'),
 'C06-A': ('shares_io_with compares the union of variables', 'same variable set with a role swapped between the contracts'),
 'C06-B': ('quotient inputs: divisor outputs minus dividend INPUTS', 'divisor shares an output with the dividend'),
 'C07-A': ('functools.lru_cache on PolyhedralTermList.simplify', 'a relaxation that drops terms from the cached object, then simplify/constructor on an equal list (history dependent)'),
 'C07-B': ('reduce_polytope early return for n <= 2', 'exactly two terms, no context, one redundant'),
 'C08-A': ('PolyhedralTerm.__eq__ keeps only the last coefficient comparison', 'terms over the same variables equal in constant and last coefficient'),
 'C08-B': ('merge simplifies each side against the other', 'guarantee shared by both operands (duplicate or scaled)'),
 'C09-A': ('_combine_optional_floats treats a zero coefficient as missing', 'same |e| repeated so that its running coefficient is exactly 0 before another copy'),
 'C09-B': ('convexity check only on the last link of a <= chain', 'chain of >=3 sides with a non-convex earlier link'),
 'C10-A': ('printer: opposite-term test accepts a subset of variables', 'earlier term whose variables are a strict subset of a later term with negated shared coefficients'),
 'C10-B': ('from_dict ignores simplify=False', 'un-simplified contract with redundant guarantees round-tripped with simplify=False'),
 'C11-A': ('evaluate skips variables whose value is 0', 'behaviour assigning exactly 0 to a variable of a violated term'),
 'C11-B': ('is_polytope_empty LP without free bounds', 'feasible system with no solution in the non-negative orthant'),
 'C12-A': ('optimize returns None when an objective variable is unconstrained, before feasibility', 'unsatisfiable contract + objective over an unconstrained variable'),
 'C12-B': ('optimize over assumptions only when the objective mentions inputs only', 'guarantees that constrain inputs'),
 'C13-A': ('_transform works on self instead of a copy', 'simplify=False refinement that transforms a term: operand rewritten in place'),
 'C13-B': ('relaxation removes tactic 4 from the (shared) tactics list in place', 'any relaxation, then a refinement only tactic 4 can solve / caller list changed'),
 'C14-A': ('_check_clause: "not str or not number" -> "not (str or number)"', 'single coefficient value of a wrong type in the machine representation'),
 'C14-B': ('tactic 5: np.linalg.solve -> lstsq', 'singular selection of active rows reaches the assertion in solve_for_variables'),
 'C15-A': ('compose: final relaxation uses the operands\' assumptions as extra context', 'producer guarantee that discharges the consumer assumption, connection variable kept, simplify=True'),
 'C15-B': ('PolyhedralTerm.__eq__ keeps only the last coefficient comparison', 'guarantees of the two operands differing in an earlier coefficient only'),
 'C16-A': ('PolyhedralTerm.rename_variable as a dict comprehension (overwrites instead of adding)', 'rename onto a variable that occurs in the same constraint'),
 'C16-B': ('rename_variables skips mappings whose source is not in the ORIGINAL contract', 'mapping list whose later source was introduced by an earlier mapping (swap through a temporary)'),
 'C17-A': ('disjointness check only between consecutive alternatives', '>=3 alternatives with a non-adjacent overlapping pair'),
 'C17-B': ('intersect breaks after the first non-empty intersection for assumptions', 'an alternative meeting two alternatives of the other operand'),
 'C18-A': ('column swap decided on the variable order before substitution', '>=3 variables, a fixed variable mentioned before both plotted ones, y before x'),
 'C18-B': ('fallback LPs without free bounds', 'degenerate slice with a corner at a negative coordinate'),
 'C19-A': ('PolyhedralTerm.__hash__ depends on the insertion order of the variables', 'equal terms built along different paths (parse order, rename)'),
 'C19-B': ('IoContract.__eq__ compares inputs+outputs concatenated', 'last input moved to the front of the outputs'),
}
for k, (summ, needs) in M.items():
    f = '/verif/seeded/%s/meta.json' % k
    if os.path.exists(f):
        d = json.load(open(f)); d['summary'] = summ; d['needs'] = needs; d['breaks_property'] = k.split('-')[0]
        json.dump(d, open(f, 'w'), indent=1)
