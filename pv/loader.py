"""Load pacti from /repo/src (never from site-packages) and pin the process environment.

Every check process calls bootstrap() first.  A wrong pacti is exit 2 (broken harness), never a pass.
"""
import os
import sys

REPO = os.environ.get("PV_REPO", "/repo")
SRC = os.path.join(REPO, "src")
VERIF = os.path.dirname(os.path.dirname(os.path.abspath(__file__)))
DEPS = os.path.join(VERIF, ".deps")
if not os.path.isdir(DEPS) and os.path.isdir("/verif/.deps"):
    DEPS = "/verif/.deps"  # background snapshots of /verif (vp run) do not carry the ignored .deps

_ENV = {
    "PYTHONDONTWRITEBYTECODE": "1",
    "PYTHONHASHSEED": "0",
    "OMP_NUM_THREADS": "1",
    "OPENBLAS_NUM_THREADS": "1",
    "MKL_NUM_THREADS": "1",
    "MPLBACKEND": "Agg",
    "PACTI_VERIF": "1",
}


def reexec_if_needed():
    """PYTHONHASHSEED and thread counts must be set before the interpreter starts: re-exec once."""
    need = any(os.environ.get(k) != v for k, v in _ENV.items())
    if need and os.environ.get("PV_REEXEC") != "1":
        env = dict(os.environ)
        env.update(_ENV)
        env["PV_REEXEC"] = "1"
        os.execve(sys.executable, [sys.executable] + sys.orig_argv[1:], env)


def bootstrap():
    sys.dont_write_bytecode = True
    for k, v in _ENV.items():
        os.environ.setdefault(k, v)
    if SRC in sys.path:
        sys.path.remove(SRC)
    sys.path.insert(0, SRC)
    if DEPS not in sys.path:
        sys.path.append(DEPS)
    import logging

    logging.disable(logging.CRITICAL)
    import pacti  # noqa

    f = os.path.realpath(pacti.__file__)
    if not f.startswith(os.path.realpath(SRC) + os.sep):
        sys.stderr.write("BROKEN: pacti loaded from %s, not from %s\n" % (f, SRC))
        sys.exit(2)
    return pacti
