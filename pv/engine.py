"""E1 — small-scope exhaustive input explorer: deterministic sharding of an enumerated case space over
worker processes, per-execution oracle, evidence / replay / known-finding plumbing (DESIGN.md 2.2-2.5).

A check module provides
    ID, LEVEL, RULE (str), ASSUMPTIONS (list of str)
    cases(tier, seed)      -> iterator of JSON-able *cases* (duplicate free, simplest first)
    run_case(case)         -> list of executions  (outcome:str, nontrivial:bool, sig, violation|None)
                              violation = {"sub": <json id of the execution inside the case>, "what": str, ...}
    REQUIRED = [outcome classes that must be observed at least once]   (vacuity guard, exit 2 if missing)
    expected_cases(tier, seed) -> int | None   closed-form size of the enumerated family (guard, exit 2)
    worker_init()          optional, run once in every worker after fork
    describe(tier, seed)   -> dict merged into coverage (alphabet / bound text)
"""
import collections
import hashlib
import json
import multiprocessing as mp
import os
import sys
import time
import traceback

from . import loader

MAX_VIOL_PER_WORKER = 400


def canon(obj):
    return json.dumps(obj, sort_keys=True, separators=(",", ":"))


def case_id(obj):
    return hashlib.sha1(canon(obj).encode()).hexdigest()[:16]


def nworkers():
    n = os.environ.get("PV_WORKERS")
    if n:
        return max(1, int(n))
    return max(1, min(16, os.cpu_count() or 1))


def budget_s(tier):
    b = os.environ.get("PV_BUDGET_S")
    if b:
        return float(b)
    return 170.0 if tier == "quick" else 5400.0


class LPCounter:
    calls = 0


def install_lp_counter():
    """count every linprog call made by pacti (interception from the harness, no source hook)"""
    import pacti.terms.polyhedra.polyhedra as P

    if getattr(P.linprog, "_pv_wrapped", False):
        return
    orig = P.linprog

    def counted(*a, **k):
        LPCounter.calls += 1
        return orig(*a, **k)

    counted._pv_wrapped = True
    counted._pv_orig = orig
    P.linprog = counted


def _library_escape(e):
    """An exception of an undocumented type raised from inside pacti's own source while the harness was using a public
    operation where it expected none: reported as a violation (no public operation may let such a type escape), not as a
    harness malfunction.  Documented types (ValueError family), oracle/explorer errors and exceptions raised by harness code
    itself stay harness errors (exit 2)."""
    from .oracle import OracleError

    if isinstance(e, (ValueError, OracleError)) or type(e).__name__ in ("ExplorerError",):
        return None
    tb = e.__traceback__
    last = None
    while tb is not None:
        last = tb.tb_frame.f_code.co_filename
        tb = tb.tb_next
    src = os.path.realpath(loader.SRC) + os.sep
    if last is None or not os.path.realpath(last).startswith(src):
        return None
    return [("escaped:" + type(e).__name__, False, None,
             {"sub": {"harness-context": type(e).__name__}, "what": "%s escaped from pacti (%s) during a public operation: %s" % (
                 type(e).__name__, os.path.basename(last), str(e)[:120])})]


def _worker(mod, tier, seed, w, nw, deadline, conn):
    out = {
        "evaluations": 0,
        "cases": 0,
        "outcomes": collections.Counter(),
        "nontrivial": 0,
        "sigs": set(),
        "casehashes": set(),
        "dups": 0,
        "samples": [],
        "violations": [],
        "nviol": 0,
        "last_idx": -1,
        "total_idx": 0,
        "capped": False,
        "error": None,
        "lp": 0,
        "oracle_queries": 0,
        "extra": collections.Counter(),
    }
    try:
        from . import oracle

        oracle.selftest()
        install_lp_counter()
        if hasattr(mod, "worker_init"):
            mod.worker_init()
        n = 0
        for idx, case in enumerate(mod.cases(tier, seed)):
            n = idx + 1
            if idx % nw != w:
                continue
            if out["capped"]:
                continue  # keep counting the size of the space
            if time.time() > deadline:
                out["capped"] = True
                continue
            h = hash(canon(case))
            if h in out["casehashes"]:
                out["dups"] += 1
                continue
            out["casehashes"].add(h)
            try:
                res = mod.run_case(case)
            except Exception as e:  # noqa
                res = _library_escape(e)
                if res is None:
                    raise
            out["cases"] += 1
            out["last_idx"] = idx
            keep = len(out["samples"]) < 2 and w == 0
            srec = []
            if isinstance(res, dict):  # bulk result of a case that is itself an exploration (E2/E3)
                out["evaluations"] += res["evaluations"]
                out["outcomes"].update(res["outcomes"])
                out["nontrivial"] += res["nontrivial"]
                out["sigs"] |= res.get("sigs", set())
                out["extra"].update(res.get("extra", {}))
                for viol in res.get("violations", []):
                    out["nviol"] += 1
                    if len(out["violations"]) < MAX_VIOL_PER_WORKER:
                        out["violations"].append({"case": case, "violation": viol})
                if keep:
                    out["samples"].append({"case": case, "executions": res.get("sample", [])})
                continue
            for r in res:
                outcome, nontriv, sig, viol = r[0], r[1], r[2], r[3]
                if len(r) > 4 and r[4]:
                    out["extra"].update(r[4])
                out["evaluations"] += 1
                out["outcomes"][outcome] += 1
                if nontriv:
                    out["nontrivial"] += 1
                if sig is not None:
                    out["sigs"].add(hash(sig) if not isinstance(sig, int) else sig)
                if viol is not None:
                    out["nviol"] += 1
                    if len(out["violations"]) < MAX_VIOL_PER_WORKER:
                        out["violations"].append({"case": case, "violation": viol})
                if keep and len(srec) < 3:
                    srec.append({"outcome": outcome, "nontrivial": bool(nontriv)})
            if keep:
                out["samples"].append({"case": case, "executions": srec})
        out["total_idx"] = n
        if hasattr(mod, "worker_exit"):
            mod.worker_exit()  # scratch directories: atexit handlers do not run in multiprocessing children
        out["lp"] = LPCounter.calls
        out["oracle_queries"] = oracle.QUERIES
    except BaseException:  # harness malfunction: report, parent exits 2
        out["error"] = traceback.format_exc()
    out["casehashes"] = len(out["casehashes"])
    conn.send(out)
    conn.close()


def explore(mod, tier, seed):
    """run the exploration; returns merged statistics"""
    t0 = time.time()
    os.environ["PV_TIER"] = tier
    nw = nworkers()
    deadline = t0 + budget_s(tier)
    ctx = mp.get_context("fork")
    procs = []
    for w in range(nw):
        pc, cc = ctx.Pipe(duplex=False)
        p = ctx.Process(target=_worker, args=(mod, tier, seed, w, nw, deadline, cc))
        p.start()
        cc.close()
        procs.append((p, pc))
    outs = []
    for p, pc in procs:
        try:
            outs.append(pc.recv())
        except EOFError:
            outs.append({"error": "worker died without reporting (exit %s)" % p.exitcode})
        p.join()
    errs = [o["error"] for o in outs if o.get("error")]
    if errs:
        sys.stderr.write("BROKEN: harness error in worker:\n%s\n" % errs[0])
        sys.exit(2)
    m = {
        "evaluations": sum(o["evaluations"] for o in outs),
        "cases": sum(o["cases"] for o in outs),
        "nontrivial": sum(o["nontrivial"] for o in outs),
        "dups": sum(o["dups"] for o in outs),
        "outcomes": collections.Counter(),
        "extra": collections.Counter(),
        "sigs": set(),
        "samples": [],
        "violations": [],
        "nviol": sum(o["nviol"] for o in outs),
        "capped": any(o["capped"] for o in outs),
        "space": max(o["total_idx"] for o in outs),
        "lp": sum(o["lp"] for o in outs),
        "oracle_queries": sum(o["oracle_queries"] for o in outs),
        "workers": nw,
    }
    if len({o["total_idx"] for o in outs}) != 1:
        sys.stderr.write("BROKEN: workers disagree on the size of the case space\n")
        sys.exit(2)
    for o in outs:
        m["outcomes"].update(o["outcomes"])
        m["extra"].update(o["extra"])
        m["sigs"] |= o["sigs"]
        m["samples"].extend(o["samples"])
        m["violations"].extend(o["violations"])
    m["covered_below_idx"] = min(o["last_idx"] for o in outs) if m["capped"] else m["space"]
    m["distinct_results"] = len(m["sigs"])
    del m["sigs"]
    m["wall_s"] = time.time() - t0
    return m
