"""Conformance binding of the E2 model to the implementation (DESIGN.md 4/C05).

A real polyhedral compose/quotient/merge is executed with recording wrappers around the four PolyhedralTermList
primitives *as called from pacti/iocontract/iocontract.py*; each recorded call is abstracted to its menu class;
the same request is rebuilt on SymTermList and the real algebra is re-run with the environment forced to replay
the abstracted answers.  Asserted: (i) every recorded answer is in the menu offered, (ii) same primitive calls in
the same order with the same eliminated-variable sets, (iii) same outcome (returned with the same interface /
same exception class), (iv) the replayed path satisfies the entailment oracle.
"""
import sys

from . import symalg as SA
from .build import contract

_REC = None
_INSTALLED = False


def _from_algebra(depth=2):
    f = sys._getframe(depth)
    return f.f_code.co_filename.replace("\\", "/").endswith("pacti/iocontract/iocontract.py")


def install():
    global _INSTALLED
    if _INSTALLED:
        return
    from pacti.terms.polyhedra.polyhedra import PolyhedralTermList as P

    def names(vs):
        return tuple(sorted(v.name for v in vs))

    o_ref, o_rel, o_sim, o_rfs = P.elim_vars_by_refining, P.elim_vars_by_relaxing, P.simplify, P.refines

    def elim(kind, orig):
        def w(self, context, vars_to_elim, simplify=True, tactics_order=None):
            if _REC is None or not _from_algebra():
                return orig(self, context, vars_to_elim, simplify, tactics_order)
            E = names(vars_to_elim)
            try:
                r = orig(self, context, vars_to_elim, simplify, tactics_order)
            except ValueError:
                _REC.append((kind, E, ("error",)))
                raise
            R = r[0]
            if not self.terms:
                cls = ("same", "fresh", "empty")
            elif not R.terms:
                cls = ("empty", "same")
            elif kind == "refine" and set(v.name for v in R.vars) & set(E):
                cls = ("leftover",)
            else:
                cls = ("fresh", "same")
            _REC.append((kind, E, cls))
            return r

        return w

    def simp(self, context=None):
        if _REC is None or not _from_algebra():
            return o_sim(self, context)
        try:
            r = o_sim(self, context)
        except ValueError:
            _REC.append(("simplify", (), ("error",)))
            raise
        _REC.append(("simplify", (), ("same",) if len(r.terms) == len(self.terms) else ("dropfirst", "same")))
        return r

    def rfs(self, other):
        if _REC is None or not _from_algebra():
            return o_rfs(self, other)
        r = o_rfs(self, other)
        _REC.append(("refines", (), ("True",) if r else ("False",)))
        return r

    P.elim_vars_by_refining = elim("refine", o_ref)
    P.elim_vars_by_relaxing = elim("relax", o_rel)
    P.simplify = simp
    P.refines = rfs
    _INSTALLED = True


def sym_specs(c1, c2):
    """rebuild two polyhedral contracts symbolically: equal terms (==) become the same atom"""
    pool = []

    def atom(t):
        for k, u in enumerate(pool):
            if u == t:
                return "t%d" % k
        pool.append(t)
        return "t%d" % (len(pool) - 1)

    def spec(c):
        return {"i": [v.name for v in c.inputvars], "o": [v.name for v in c.outputvars],
                "a": [[atom(t), [v.name for v in t.vars]] for t in c.a.terms],
                "g": [[atom(t), [v.name for v in t.vars]] for t in c.g.terms]}

    return spec(c1), spec(c2)


def conform(op, j1, j2, arg, simplify=True):
    """returns (status, detail); status in ok / mismatch ; raises ExplorerError when the model is too narrow"""
    global _REC
    from pacti.iocontract import Var
    from pacti.utils.errors import IncompatibleArgsError

    install()
    try:
        c1, c2 = contract(j1, simplify=False), contract(j2, simplify=False)
    except ValueError:
        return "skip", "operand construction failed"
    from .build import jcontract

    before = (jcontract(c1), jcontract(c2))
    _REC = []
    try:
        try:
            if op == "compose":
                res = c1.compose(c2, list(arg), simplify)
            elif op == "quotient":
                res = c1.quotient(c2, [Var(x) for x in arg], simplify)
            else:
                res = c1.merge(c2)
            real = ("returned", tuple(v.name for v in res.inputvars), tuple(v.name for v in res.outputvars))
        except IncompatibleArgsError:
            real = ("IncompatibleArgsError",)
        except ValueError:
            real = ("ValueError",)
        except Exception as e:  # noqa
            real = ("escaped:" + type(e).__name__,)
        rec = _REC
    finally:
        _REC = None
    if (jcontract(c1), jcontract(c2)) != before:
        return "mismatch", "the real %s modified its operand contracts in place" % op
    s1, s2 = sym_specs(c1, c2)
    env, outcome, sres, k1, k2 = SA.run(op, s1, s2, list(arg), force=[r[2] for r in rec], simplify=simplify)
    if len(env.trace) != len(rec):
        return "mismatch", "real run made %d primitive calls, symbolic run %d (%s vs %s)" % (
            len(rec), len(env.trace), [r[0] for r in rec], [t[0] for t in env.trace])
    for r, t, call in zip(rec, env.trace, env.calls):
        if r[0] != t[0]:
            return "mismatch", "primitive call order differs: real %s, symbolic %s" % (r[0], t[0])
        if r[0] in ("refine", "relax") and r[1] != call[1]:
            return "mismatch", "eliminated variables differ at %s: real %s, symbolic %s" % (r[0], r[1], call[1])
    if outcome == "returned":
        sym = ("returned", tuple(v.name for v in sres.inputvars), tuple(v.name for v in sres.outputvars))
    else:
        sym = (outcome,)
    if sym != real:
        return "mismatch", "outcomes differ: real %s, symbolic %s" % (real, sym)
    if outcome == "returned":
        for label, ok, missing, rules, start in SA.obligations(op, k1, k2, sres, env):
            if not ok:
                return "mismatch", "replayed path violates %s (missing %s)" % (label, missing)
    return "ok", {"calls": [(r[0], r[2][0]) for r in rec], "outcome": real[0], "fallbacks": env.fallbacks}
