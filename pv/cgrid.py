"""Grids of polyhedral contract pairs over the wirings named in DESIGN.md 4 (shared by C01 C02 C05-conformance C08 C15).

A contract is JSON {"i": [...], "o": [...], "a": [terms], "g": [terms]}.
"""
import itertools

from . import grids

WIRINGS = {
    # name: (in1, out1, in2, out2)
    "indep": (["i"], ["o"], ["j"], ["p"]),
    "casc": (["i"], ["o"], ["o"], ["p"]),
    "share": (["i"], ["o"], ["i"], ["p"]),
    "fb": (["i", "p"], ["o"], ["o"], ["p"]),
    "casc2": (["i"], ["o", "q"], ["o", "q"], ["p"]),
    "mix": (["i"], ["o"], ["o", "j"], ["p"]),
}


def _terms(vs, must, K, B):
    """terms over vs with coefficient sets K[v]; must mention one of `must`"""
    out = []
    for co in itertools.product(*[K[v] for v in vs]):
        if not any(co):
            continue
        d = {v: c for v, c in zip(vs, co) if c}
        if must and not (set(d) & set(must)):
            continue
        for b in B:
            out.append([d, b])
    out.sort(key=lambda t: (len(t[0]), sum(abs(c) for c in t[0].values()), str(t)))
    return out


def side(ins, outs, level):
    """(assumption lists, guarantee lists) for one component; level 0 small .. 2 large"""
    Ka = {v: [-1, 0, 1] for v in ins}
    a_terms = _terms(ins, None, Ka, [0, 2] if level < 2 else [0, 1, 2]) if ins else []
    a_terms = [t for t in a_terms if len(t[0]) == 1] + ([t for t in a_terms if len(t[0]) > 1][:2] if level else [])
    Kg = {v: ([-1, 0, 1, 2] if level else [-1, 0, 1]) for v in ins}
    Kg.update({v: [-1, 0, 1] for v in outs})
    g_terms = _terms(ins + outs, outs, Kg, [0, 1] if level else [1])
    if len(ins) + len(outs) > 2:
        g_terms = [t for t in g_terms if len(t[0]) <= 2]
    A = list(grids.lists_upto(a_terms, 1))
    G = list(grids.lists_upto(g_terms, 1 if level == 0 else 2, minlen=1))
    return A, G


def pairs(wiring, level, max_pairs=None):
    """all pairs (c1, c2) of the wiring at the given level, simplest first"""
    i1, o1, i2, o2 = WIRINGS[wiring]
    A1, G1 = side(i1, o1, level)
    A2, G2 = side(i2, o2, level)
    n = 0
    for g1 in G1:
        for g2 in G2:
            for a1 in A1:
                for a2 in A2:
                    yield ({"i": i1, "o": o1, "a": a1, "g": g1}, {"i": i2, "o": o2, "a": a2, "g": g2})
                    n += 1
                    if max_pairs and n >= max_pairs:
                        return


def n_pairs(wiring, level):
    i1, o1, i2, o2 = WIRINGS[wiring]
    A1, G1 = side(i1, o1, level)
    A2, G2 = side(i2, o2, level)
    return len(A1) * len(G1) * len(A2) * len(G2)
