"""E3 — explicit-state session explorer support: structural fingerprints with identity partition, canonical
values, and a pristine fork-server ('zygote') that executes single calls in a fresh interpreter state.
(DESIGN.md 2.2 E3 / C13)
"""
import hashlib
import os
import pickle
import re
import struct
import sys
import types

from pacti.iocontract import Var

_RE = type(re.compile(""))


# ------------------------------------------------------------------ structural walk
class Walker:
    """Deterministic structural serialisation of an object graph.  Every visited object is kept alive in
    self.keep (recycled id()s would fake aliasing); self.mut collects the ids of mutable nodes."""

    def __init__(self):
        self.out = []
        self.seen = {}
        self.keep = []
        self.mut = set()

    def walk(self, o):  # noqa: C901
        out = self.out
        if o is None or o is True or o is False:
            out.append(repr(o))
            return
        t = type(o)
        if t is int or t is str or t is bytes:
            out.append(repr(o))
            return
        if t is float:
            out.append(o.hex())
            return
        i = id(o)
        if i in self.seen:
            out.append("@%d" % self.seen[i])
            return
        self.seen[i] = len(self.seen)
        self.keep.append(o)
        if t is Var:
            out.append("Var:" + o._name)
            return
        if t is list or t is tuple:
            if t is list:
                self.mut.add(i)
            out.append("%s[%d" % (t.__name__, len(o)))
            for x in o:
                self.walk(x)
            out.append("]")
            return
        if t is dict:
            self.mut.add(i)
            out.append("dict{%d" % len(o))
            for k, v in o.items():
                self.walk(k)
                self.walk(v)
            out.append("}")
            return
        if t is set or t is frozenset:
            out.append("set{" + ",".join(sorted(repr(x) for x in o)) + "}")
            return
        if isinstance(o, types.FunctionType):
            out.append("fn:%s:%s" % (o.__qualname__, hashlib.md5(o.__code__.co_code).hexdigest()[:8]))
            self.walk(o.__defaults__)
            self.walk(o.__kwdefaults__)
            return
        if isinstance(o, (types.BuiltinFunctionType, types.MethodType, types.ModuleType, staticmethod, classmethod, property)) or t is type \
                or isinstance(o, type):
            out.append("%s:%s" % (t.__name__, getattr(o, "__qualname__", getattr(o, "__name__", "?"))))
            if isinstance(o, (staticmethod, classmethod)):
                self.walk(o.__func__)
            return
        if t is _RE:
            out.append("re:" + o.pattern)
            return
        if hasattr(o, "__dict__"):
            self.mut.add(i)
            d = vars(o)
            out.append("obj:%s{" % t.__qualname__)
            for k in sorted(d, key=str):
                if k in _SKIP_FIELDS:
                    continue
                out.append(str(k))
                self.walk(d[k])
            out.append("}")
            return
        if hasattr(t, "__slots__"):
            self.mut.add(i)
            out.append("slots:%s{" % t.__qualname__)
            for k in t.__slots__:
                if hasattr(o, k):
                    out.append(k)
                    self.walk(getattr(o, k))
            out.append("}")
            return
        out.append("leaf:%s" % t.__qualname__)

    def digest(self):
        return hashlib.sha1("\x1f".join(self.out).encode()).hexdigest()


_SKIP_FIELDS = {"re_match", "__weakref__", "__doc__", "__module__", "__dict__", "__annotations__", "__firstlineno__", "__static_attributes__",
                "__orig_bases__", "__parameters__", "__abstractmethods__", "_abc_impl", "__dataclass_fields__", "__dataclass_params__",
                "__match_args__"}


def pacti_modules():
    names = sorted(n for n in sys.modules if n == "pacti" or n.startswith("pacti."))
    return [sys.modules[n] for n in names]


def hidden_state_walker():
    """module-level and class-level objects of every pacti module, incl. the pyparsing grammar object graph"""
    w = Walker()
    for m in pacti_modules():
        w.out.append("module:" + m.__name__)
        d = vars(m)
        for k in sorted(d):
            if k.startswith("__") and k.endswith("__"):
                continue
            v = d[k]
            w.out.append(k)
            if isinstance(v, type) and getattr(v, "__module__", "").startswith("pacti"):
                w.out.append("class:" + v.__qualname__)
                for ck in sorted(vars(v), key=str):
                    if ck in _SKIP_FIELDS:
                        continue
                    w.out.append(str(ck))
                    w.walk(vars(v)[ck])
            else:
                w.walk(v)
    return w


def fingerprint_hidden():
    return hidden_state_walker().digest()


def fingerprint_pool(pool):
    w = Walker()
    for name in sorted(pool):
        w.out.append("pool:" + name)
        w.walk(pool[name])
    return w.digest(), w


def mutable_ids(obj):
    w = Walker()
    w.walk(obj)
    return w.mut, w


# ------------------------------------------------------------------ canonical values (bit exact) and rebuilding
def canon(o):  # noqa: C901
    from pacti.contracts import PolyhedralIoContract
    from pacti.terms.polyhedra.polyhedra import PolyhedralTerm, PolyhedralTermList

    if o is None or isinstance(o, (bool, int, str)):
        return o
    if isinstance(o, float):
        return ("f", o.hex())
    if isinstance(o, Var):
        return ("V", o.name)
    if isinstance(o, PolyhedralTerm):
        return ("T", tuple((v.name, c.hex()) for v, c in o.variables.items()), float(o.constant).hex())
    if isinstance(o, PolyhedralTermList):
        return ("L", tuple(canon(t) for t in o.terms))
    if isinstance(o, PolyhedralIoContract):
        return ("C", tuple(v.name for v in o.inputvars), tuple(v.name for v in o.outputvars), canon(o.a), canon(o.g))
    from pacti.iocontract import IoContractCompound, NestedTermList

    if isinstance(o, NestedTermList):
        return ("N", tuple(canon(t) for t in o.nested_termlist))
    if isinstance(o, IoContractCompound):
        return ("CC", tuple(v.name for v in o.inputvars), tuple(v.name for v in o.outputvars), canon(o.a), canon(o.g))
    if isinstance(o, (list, tuple)):
        return ("l", tuple(canon(x) for x in o))
    if isinstance(o, dict):
        return ("d", tuple((canon(k), canon(v)) for k, v in o.items()))
    if isinstance(o, BaseException):
        return ("EXC", type(o).__name__)
    return ("?", type(o).__qualname__, repr(o))


def rebuild(c):  # noqa: C901
    from pacti.contracts import PolyhedralIoContract
    from pacti.terms.polyhedra.polyhedra import PolyhedralTerm, PolyhedralTermList

    if c is None or isinstance(c, (bool, int, str)):
        return c
    k = c[0]
    if k == "f":
        return float.fromhex(c[1])
    if k == "V":
        return Var(c[1])
    if k == "T":
        t = PolyhedralTerm({}, 0)
        t.variables = {Var(n): float.fromhex(h) for n, h in c[1]}
        t.constant = float.fromhex(c[2])
        return t
    if k == "L":
        return PolyhedralTermList([rebuild(t) for t in c[1]])
    if k == "C":
        return PolyhedralIoContract(rebuild(c[3]), rebuild(c[4]), [Var(n) for n in c[1]], [Var(n) for n in c[2]], simplify=False)
    if k == "N":
        from pacti.contracts.polyhedral_iocontract import NestedPolyhedra

        return NestedPolyhedra([rebuild(t) for t in c[1]], force_empty_intersection=False)
    if k == "CC":
        from pacti.contracts import PolyhedralIoContractCompound

        return PolyhedralIoContractCompound(assumptions=rebuild(c[3]), guarantees=rebuild(c[4]), input_vars=[Var(n) for n in c[1]],
                                            output_vars=[Var(n) for n in c[2]])
    if k == "l":
        return [rebuild(x) for x in c[1]]
    if k == "d":
        return {rebuild(a): rebuild(b) for a, b in c[1]}
    raise ValueError("cannot rebuild %r" % (c,))


# ------------------------------------------------------------------ zygote (pristine fork server)
class Zygote:
    """A child forked right after warm-up.  For every request it forks a grandchild that performs the call on
    arguments rebuilt from canonical values and sends back the canonical result; the zygote itself never
    executes library calls, so every grandchild starts from the pristine interpreter state."""

    def __init__(self, do_call):
        r1, w1 = os.pipe()
        r2, w2 = os.pipe()
        pid = os.fork()
        if pid == 0:
            os.close(w1)
            os.close(r2)
            self._serve(os.fdopen(r1, "rb"), os.fdopen(w2, "wb"), do_call)
            os._exit(0)
        os.close(r1)
        os.close(w2)
        self.pid = pid
        self.tx = os.fdopen(w1, "wb")
        self.rx = os.fdopen(r2, "rb")
        self.memo = {}
        self.forks = 0

    @staticmethod
    def _serve(rx, tx, do_call):
        while True:
            try:
                req = pickle.load(rx)
            except EOFError:
                return
            if req is None:
                return
            rr, ww = os.pipe()
            pid = os.fork()
            if pid == 0:
                os.close(rr)
                try:
                    res = do_call(req[0], [rebuild(a) for a in req[1]])
                    payload = canon(res)
                except BaseException as e:  # noqa
                    payload = ("EXC", type(e).__name__)
                with os.fdopen(ww, "wb") as f:
                    pickle.dump(payload, f)
                os._exit(0)
            os.close(ww)
            with os.fdopen(rr, "rb") as f:
                try:
                    payload = pickle.load(f)
                except EOFError:
                    payload = ("DIED",)
            os.waitpid(pid, 0)
            pickle.dump(payload, tx)
            tx.flush()

    def call(self, op, cargs):
        key = (op, cargs)
        if key in self.memo:
            return self.memo[key]
        pickle.dump((op, cargs), self.tx)
        self.tx.flush()
        res = pickle.load(self.rx)
        self.forks += 1
        self.memo[key] = res
        return res

    def close(self):
        try:
            pickle.dump(None, self.tx)
            self.tx.flush()
            os.waitpid(self.pid, 0)
        except Exception:  # noqa
            pass
