"""Exact semantic obligations for polyhedral compose / quotient / merge results (shared by C01 C02 C08 C15)."""
from . import oracle as O


def R(c):
    return O.rts(c.a), O.rts(c.g)


def compose_unsound(c1, c2, res):
    """witness of a situation where C's assumptions hold, both components honour their contracts, and a component
    assumption or a guarantee of C is broken by more than the tolerance; None if there is none"""
    a1, g1 = R(c1)
    a2, g2 = R(c2)
    ar, gr = R(res)
    concl = a1 + a2 + gr
    if not concl:
        return None
    return O.find_point(O.AND(O.sat(ar), O.honours(a1, g1), O.honours(a2, g2), O.broken(concl)),
                        O.names_of(a1, g1, a2, g2, ar, gr))


def quotient_unsound(top, div, q):
    """top = C, div = C1, q = Q: A_C & (A1~ => G1) & (A_Q~ => G_Q) & not(A1 & A_Q & G_C)"""
    ac, gc = R(top)
    a1, g1 = R(div)
    aq, gq = R(q)
    concl = a1 + aq + gc
    if not concl:
        return None
    return O.find_point(O.AND(O.sat(ac), O.honours(a1, g1), O.honours(aq, gq), O.broken(concl)),
                        O.names_of(ac, gc, a1, g1, aq, gq))


def equiv(h1, h2):
    """two-way: witness (direction, point) that the conjunctions differ beyond the tolerance, or None"""
    w = O.implied(O.sat(h1), h2)
    if w is not None:
        return ("left holds, right broken", w)
    w = O.implied(O.sat(h2), h1)
    if w is not None:
        return ("right holds, left broken", w)
    return None


def forgotten(c1, c2, res):
    """an operand guarantee over the result's interface that A_C & G_C does not enforce: (term, witness) or None"""
    ar, gr = R(res)
    iface = {v.name for v in res.inputvars} | {v.name for v in res.outputvars}
    for c in (c1, c2):
        for t in O.rts(c.g):
            if {n for n, _ in t[0]} <= iface:
                w = O.implied(O.sat(ar + gr), [t])
                if w is not None:
                    return t, w
    return None


def show(t):
    return " + ".join("%s*%s" % (float(c), n) for n, c in t[0]) + " <= %s" % float(t[1])
