"""Independent pure-Fraction decision of 'hypothesis polytope inside a box implies a linear conclusion':
exact vertex enumeration (a linear function attains its maximum over a bounded polytope at a vertex).
Used to cross-check the z3 oracle on conjunctive queries (DESIGN.md 2.4 safeguard (i))."""
import itertools
from fractions import Fraction as F


def _solve(rows, rhs):
    """Gaussian elimination over Fractions; returns the unique solution or None"""
    n = len(rows)
    a = [list(r) + [b] for r, b in zip(rows, rhs)]
    for c in range(n):
        p = None
        for r in range(c, n):
            if a[r][c] != 0:
                p = r
                break
        if p is None:
            return None
        a[c], a[p] = a[p], a[c]
        pv = a[c][c]
        a[c] = [x / pv for x in a[c]]
        for r in range(n):
            if r != c and a[r][c] != 0:
                f = a[r][c]
                a[r] = [x - f * y for x, y in zip(a[r], a[c])]
    return [a[r][n] for r in range(n)]


def vertices(terms, names, box):
    """all vertices of {x : terms hold, |x_i| <= box}; terms are RTs (coefs tuple, const)"""
    d = len(names)
    idx = {n: i for i, n in enumerate(names)}
    rows = []
    for co, c in terms:
        r = [F(0)] * d
        for n, v in co:
            r[idx[n]] += v
        rows.append((r, c))
    for i in range(d):
        e = [F(0)] * d
        e[i] = F(1)
        rows.append((e, F(box)))
        rows.append(([-x for x in e], F(box)))
    # variable-free rows decide feasibility at once
    for r, c in rows:
        if not any(r) and c < 0:
            return []
    rows = [(r, c) for r, c in rows if any(r)]
    out = set()
    for comb in itertools.combinations(range(len(rows)), d):
        sol = _solve([rows[k][0] for k in comb], [rows[k][1] for k in comb])
        if sol is None:
            continue
        if all(sum(a * x for a, x in zip(r, sol)) <= c for r, c in rows):
            out.add(tuple(sol))
    return out


def max_violation(hyp_terms, concl_terms, names, box, tol_of):
    """returns True iff some box point satisfying hyp breaks a conclusion term by more than its tolerance"""
    vs = vertices(hyp_terms, names, box)
    if not vs:
        return False
    idx = {n: i for i, n in enumerate(names)}
    for co, c in concl_terms:
        best = max(sum(v * p[idx[n]] for n, v in co) for p in vs)
        if best > c + tol_of((co, c)):
            return True
    return False
