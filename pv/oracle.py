"""Exact linear-arithmetic oracle over concrete result objects (DESIGN.md 2.4).

A *rational term* RT is (coefs, const): coefs a tuple of (name, Fraction) pairs, meaning sum <= const.
Formulas are small ASTs:
    ("le", RT, extra)   sum <= const + extra          (extra a Fraction >= 0)
    ("gt", RT, extra)   sum >  const + extra
    ("and", [f...])  ("or", [f...])  ("true",)  ("false",)
`find_point(formula, names)` returns a rational point inside the box |v| <= BOX satisfying the formula, or
None if there is none.  z3's LRA engine answers; every returned point is re-evaluated here with plain
Fraction arithmetic before it is believed (a disagreement raises OracleError = harness malfunction).
"""
from fractions import Fraction as F

BOX = F(1000)
TOL = F(1, 10000)
SLACK = F(1, 10000000)


class OracleError(Exception):
    pass


# ---------------------------------------------------------------- conversion from pacti objects
def rt(term):
    """PolyhedralTerm -> RT (exact rational reading of every float)."""
    return (tuple(sorted((v.name, F(c)) for v, c in term.variables.items())), F(term.constant))


def rts(termlist):
    return [rt(t) for t in termlist.terms]


def mk(coefs, const):
    """Build an RT from a {name: number} dict."""
    return (tuple(sorted((n, F(c)) for n, c in coefs.items() if c != 0)), F(const))


def names_of(*rtlists):
    s = set()
    for l in rtlists:
        for t in l:
            for n, _ in t[0]:
                s.add(n)
    return sorted(s)


def tol_of(t):
    return TOL * (1 + abs(t[1]))


def slack_of(t):
    return SLACK * (1 + abs(t[1]))


# ---------------------------------------------------------------- formula builders
TRUE = ("true",)
FALSE = ("false",)


def AND(*fs):
    out = []
    for f in fs:
        if isinstance(f, list):
            out.extend(f)
        else:
            out.append(f)
    return ("and", out)


def OR(*fs):
    out = []
    for f in fs:
        if isinstance(f, list):
            out.extend(f)
        else:
            out.append(f)
    return ("or", out)


def sat(terms):
    """all terms hold exactly (positively appearing hypothesis)"""
    return ("and", [("le", t, F(0)) for t in terms])


def sat_slack(terms):
    """all terms hold up to the 1e-7 slack (A~)"""
    return ("and", [("le", t, slack_of(t)) for t in terms])


def broken(terms):
    """some term is broken by more than the tolerance (negated conclusion)"""
    return ("or", [("gt", t, tol_of(t)) for t in terms])


def broken_slack(terms):
    """not A~ : some term broken by more than the slack"""
    return ("or", [("gt", t, slack_of(t)) for t in terms])


def honours(a, g):
    """a component honours its contract: A~ => G"""
    return OR(broken_slack(a), sat(g))


# ---------------------------------------------------------------- exact evaluation (independent of z3)
def lhs(t, pt):
    return sum((c * pt.get(n, F(0)) for n, c in t[0]), F(0))


def evalf(f, pt):
    k = f[0]
    if k == "le":
        return lhs(f[1], pt) <= f[1][1] + f[2]
    if k == "gt":
        return lhs(f[1], pt) > f[1][1] + f[2]
    if k == "and":
        return all(evalf(g, pt) for g in f[1])
    if k == "or":
        return any(evalf(g, pt) for g in f[1])
    if k == "true":
        return True
    if k == "false":
        return False
    raise OracleError("bad formula " + repr(k))


def fnames(f, acc=None):
    if acc is None:
        acc = set()
    k = f[0]
    if k in ("le", "gt"):
        for n, _ in f[1][0]:
            acc.add(n)
    elif k in ("and", "or"):
        for g in f[1]:
            fnames(g, acc)
    return acc


# ---------------------------------------------------------------- z3 back end
_z3 = None
_vars = {}
QUERIES = 0


def _z():
    global _z3
    if _z3 is None:
        import z3

        _z3 = z3
    return _z3


def _var(n):
    v = _vars.get(n)
    if v is None:
        v = _z().Real(n)
        _vars[n] = v
    return v


def _q(fr):
    return _z().RatVal(fr.numerator, fr.denominator)


def _lin(t):
    z = _z()
    terms = [_q(c) * _var(n) for n, c in t[0]]
    if not terms:
        return _q(F(0))
    return z.Sum(terms) if len(terms) > 1 else terms[0]


def _tz(f):
    z = _z()
    k = f[0]
    if k == "le":
        return _lin(f[1]) <= _q(f[1][1] + f[2])
    if k == "gt":
        return _lin(f[1]) > _q(f[1][1] + f[2])
    if k == "and":
        return z.And([_tz(g) for g in f[1]]) if f[1] else z.BoolVal(True)
    if k == "or":
        return z.Or([_tz(g) for g in f[1]]) if f[1] else z.BoolVal(False)
    if k == "true":
        return z.BoolVal(True)
    if k == "false":
        return z.BoolVal(False)
    raise OracleError("bad formula")


def _num(r):
    if hasattr(r, "numerator_as_long"):
        return F(r.numerator_as_long(), r.denominator_as_long())
    if hasattr(r, "as_long"):
        return F(r.as_long())
    raise OracleError("not a rational: %r" % (r,))


def _val(model, v):
    z = _z()
    return _num(model.eval(v, model_completion=True))


def find_point(formula, names=None, box=BOX):
    """A rational point with |v| <= box satisfying formula, or None."""
    global QUERIES
    QUERIES += 1
    z = _z()
    ns = sorted(fnames(formula) | set(names or ()))
    s = z.Solver()
    for n in ns:
        v = _var(n)
        if box is not None:
            s.add(v <= _q(box), v >= _q(-box))
    s.add(_tz(formula))
    r = s.check()
    if r == z.unsat:
        return None
    if r != z.sat:
        raise OracleError("z3 answered %s" % r)
    m = s.model()
    pt = {n: _val(m, _var(n)) for n in ns}
    if not evalf(formula, pt) or (box is not None and any(abs(x) > box for x in pt.values())):
        raise OracleError("z3 model does not satisfy the formula under Fraction evaluation")
    return pt


XCHECKS = 0


def _conj_terms(f):
    """the RT list of a pure conjunction of exact 'le' atoms, else None"""
    if f[0] == "le":
        return [f[1]] if f[2] == 0 else None
    if f[0] == "true":
        return []
    if f[0] != "and":
        return None
    out = []
    for g in f[1]:
        r = _conj_terms(g)
        if r is None:
            return None
        out += r
    return out


def implied(hyp_formula, concl_terms, names=None):
    """None if no box point satisfies hyp and breaks some conclusion term by > tol; else the witness.
    Conjunctive queries over <= 3 variables are re-decided on a deterministic 1-in-8 slice (all of them when
    PV_XCHECK=all) by exact vertex enumeration in pure Fraction arithmetic; a disagreement is a harness error."""
    global XCHECKS
    if not concl_terms:
        return None
    w = find_point(AND(hyp_formula, broken(concl_terms)), names)
    hy = _conj_terms(hyp_formula)
    if hy is not None:
        ns = sorted(set(names_of(hy, concl_terms)) | set(names or ()))
        if 1 <= len(ns) <= 3 and (_XALL or (QUERIES % 8 == 0)):
            from . import fracpoly

            XCHECKS += 1
            v = fracpoly.max_violation(hy, concl_terms, ns, BOX, tol_of)
            if v != (w is not None):
                raise OracleError("z3 and the Fraction vertex enumerator disagree on an implication query")
    return w


import os as _os

_XALL = _os.environ.get("PV_XCHECK") == "all"


def feasible(terms, box=None):
    """exact feasibility of a conjunction (no box by default)"""
    return find_point(sat(terms), box=box) is not None


def opt(terms, objective, maximize=True):
    """Exact LP: returns ('infeasible',None) | ('unbounded',None) | ('opt', Fraction)."""
    z = _z()
    global QUERIES
    QUERIES += 1
    if not feasible(terms):
        return ("infeasible", None)
    o = z.Optimize()
    for t in terms:
        o.add(_lin(t) <= _q(t[1]))
    obj = _lin((tuple(sorted((n, F(c)) for n, c in objective.items())), F(0)))
    h = o.maximize(obj) if maximize else o.minimize(obj)
    if o.check() != z.sat:
        raise OracleError("optimize not sat")
    v = o.upper(h) if maximize else o.lower(h)
    sv = str(v)
    if "oo" in sv:
        return ("unbounded", None)
    if "epsilon" in sv:
        raise OracleError("strict optimum?")
    return ("opt", _num(v))


def ptjson(pt):
    return {n: str(x) for n, x in sorted(pt.items())} if pt is not None else None


# ---------------------------------------------------------------- start-up self test (known answers)
def selftest():
    x1 = mk({"x": 1}, 1)  # x <= 1
    x2 = mk({"x": 1}, 2)  # x <= 2
    nx = mk({"x": -1}, 0)  # x >= 0
    xy = mk({"x": 1, "y": 1}, 2)
    y1 = mk({"y": 1}, 1)
    checks = [
        (implied(sat([x1]), [x2]) is None, "x<=1 => x<=2"),
        (implied(sat([x2]), [x1]) is not None, "x<=2 =/=> x<=1"),
        (implied(sat([x1, y1]), [xy]) is None, "x<=1,y<=1 => x+y<=2"),
        (implied(sat([xy]), [x1]) is not None, "x+y<=2 =/=> x<=1"),
        (implied(sat([mk({"x": 1}, 1.00001)]), [x1]) is None, "within tolerance"),
        (implied(sat([mk({"x": 1}, 1.001)]), [x1]) is not None, "beyond tolerance"),
        (find_point(AND(sat([x1]), sat([mk({"x": -1}, -2)]))) is None, "x<=1 & x>=2 infeasible"),
        (find_point(AND(honours([x1], [y1]), sat([nx, x1]), broken([y1]))) is None, "honours"),
        (find_point(AND(honours([x1], [y1]), sat([x2]), broken([y1]))) is not None, "honours needs assumption"),
        (opt([x1, nx], {"x": 1}) == ("opt", F(1)), "max x"),
        (opt([x1], {"x": 1}, maximize=False) == ("unbounded", None), "min x unbounded"),
        (opt([x1, mk({"x": -1}, -2)], {"x": 1}) == ("infeasible", None), "infeasible"),
    ]
    for ok, what in checks:
        if not ok:
            raise OracleError("oracle self-test failed: " + what)
    return len(checks)
