"""pv — bounded exhaustive exploration harness for the pacti properties (see /verif/DESIGN.md)."""
