"""CLI: /venv/bin/python -m pv.run C04 --tier quick   (cwd /verif)

exit 0  property held on everything explored (known findings are printed as KNOWN-FINDING lines)
exit 1  violation not listed in known_findings.json: line `VIOLATION property=<id> replay=<path>`
exit 2  harness malfunction (wrong pacti, oracle disagreement, vacuous exploration, schema failure)
"""
import importlib
import json
import os
import sys
import time

from . import loader

loader.reexec_if_needed()
loader.bootstrap()

from . import engine  # noqa: E402

VERIF = loader.VERIF
TRUSTED = [
    "CPython 3.12 + installed numpy/scipy(HiGHS)/sympy/pyparsing are the environment pacti is specified against",
    "Fraction(float) is the meaning of a float; z3 LRA decides per-execution linear questions on concrete results, "
    "every witness point re-evaluated with plain Fraction arithmetic",
    "pacti is imported from /repo/src of the current working tree (asserted), nothing cached between runs",
]


def load_known():
    p = os.path.join(VERIF, "known_findings.json")
    if not os.path.exists(p):
        return {"findings": [], "fixed": []}
    with open(p) as f:
        return json.load(f)


def known_ids(finding):
    ids = set()
    rep = finding.get("representative")
    if rep is not None:
        ids.add(engine.case_id(rep))
    for k in finding.get("ids", []):
        ids.add(k)
    f = finding.get("ids_file")
    if f:
        with open(os.path.join(VERIF, f)) as fh:
            for line in fh:
                line = line.strip()
                if line:
                    ids.add(line)
    return ids


def write_evidence(pid, doc):
    import jsonschema

    with open("/root/.vp/EVIDENCE.schema.json") if os.path.exists("/root/.vp/EVIDENCE.schema.json") else open(
        os.path.join(VERIF, "pv", "EVIDENCE.schema.json")
    ) as f:
        schema = json.load(f)
    try:
        jsonschema.validate(doc, schema)
    except jsonschema.ValidationError as e:
        sys.stderr.write("BROKEN: evidence does not validate: %s\n" % e.message)
        sys.exit(2)
    # runs against a scratch worktree (PV_REPO set, mutation / false-alarm testing) must not overwrite the evidence of /repo
    edir = os.path.join(VERIF, "evidence") if os.environ.get("PV_REPO", "/repo") == "/repo" else os.path.join(VERIF, ".scratch_evidence")
    os.makedirs(edir, exist_ok=True)
    path = os.path.join(edir, pid + ".json")
    tmp = path + ".tmp"
    with open(tmp, "w") as f:
        json.dump(doc, f, indent=1, sort_keys=True, default=str)
        f.write("\n")
    os.replace(tmp, path)
    return path


def viol_key(v):
    return engine.case_id({"case": v["case"], "sub": v["violation"].get("sub")})


def reproduce(mod, v):
    """re-run one violating case twice with plain calls; True iff the same violation shows both times"""
    seen = []
    for _ in range(2):
        res = mod.run_case(v["case"])
        if isinstance(res, dict):
            subs = [engine.canon(x.get("sub")) for x in res.get("violations", [])]
        else:
            subs = [engine.canon(r[3].get("sub")) for r in res if r[3] is not None]
        seen.append(engine.canon(v["violation"].get("sub")) in subs)
    if seen[0] != seen[1]:
        sys.stderr.write("BROKEN: violation does not reproduce deterministically: %s\n" % engine.canon(v)[:400])
        sys.exit(2)
    return seen[0]


def main(argv=None):
    argv = list(sys.argv[1:] if argv is None else argv)
    if not argv:
        print(__doc__)
        return 2
    pid = argv[0].upper()
    tier = os.environ.get("VERIF_TIER", "quick")
    if "--tier" in argv:
        tier = argv[argv.index("--tier") + 1]
    if tier not in ("quick", "thorough"):
        tier = "quick"
    try:
        seed = int(os.environ.get("VERIF_SEED", "0"))
    except ValueError:
        seed = 0
    if "--seed" in argv:
        seed = int(argv[argv.index("--seed") + 1])
    mod = importlib.import_module("pv.checks." + pid.lower())
    t0 = time.time()
    if hasattr(mod, "explore"):
        m = mod.explore(tier, seed)  # E2 / E3 engines bring their own exploration
    else:
        m = engine.explore(mod, tier, seed)

    # ---- guards against vacuous exploration (hard failures, never passes)
    problems = []
    if hasattr(mod, "expected_cases"):
        exp = mod.expected_cases(tier, seed)
        if exp is not None and exp != m["space"]:
            problems.append("enumerated %d cases, closed form says %d" % (m["space"], exp))
    if m.get("dups"):
        problems.append("%d duplicate cases in the enumeration" % m["dups"])
    if not m.get("capped"):
        for req in getattr(mod, "REQUIRED", []):
            if not m["outcomes"].get(req) and not m["extra"].get(req):
                problems.append("required outcome class never observed: " + req)
    if problems and not m.get("nviol"):
        # the vacuity guards protect a "no violation" verdict; a run that found violations reports them instead
        sys.stderr.write("BROKEN: " + "; ".join(problems) + "\n")
        return 2

    # ---- violations vs known findings
    known = load_known()
    kf = [f for f in known.get("findings", []) if f.get("property") == pid]
    kf_ids = [(f, known_ids(f)) for f in kf]
    new, attributed = [], {}
    for v in m["violations"]:
        k = viol_key(v)
        hit = None
        for f, ids in kf_ids:
            if k in ids:
                hit = f
                break
        if hit is not None:
            attributed[hit["id"]] = attributed.get(hit["id"], 0) + 1
        else:
            new.append((k, v))
    unlisted_uncounted = m["nviol"] - len(m["violations"])  # beyond the per-worker cap: treat as new
    # every listed finding's representative input is replayed in every tier
    for f in kf:
        rep = f.get("representative")
        still = None
        if rep is not None:
            still = reproduce(mod, {"case": rep["case"], "violation": {"sub": rep.get("sub")}})
        if still is False:
            print("NOTE: known finding %s no longer reproduces on its representative input" % f["id"])
        else:
            print("KNOWN-FINDING: property=%s %s %s" % (pid, f["id"], f.get("what", "")))
    replay_paths = []
    if new:
        import subprocess

        os.makedirs(os.path.join(VERIF, "replays", pid), exist_ok=True)
        # smallest first; self-contained sequences (cases that carry their own history) before them, because a violation caused by
        # state left behind by an EARLIER case of the same worker does not reproduce from a fresh interpreter
        new.sort(key=lambda kv: (0 if "seq" in kv[1]["case"] else 1, len(engine.canon(kv[1]["case"])), kv[0]))
        seen_keys = set()
        tried = confirmed = 0
        for k, v in new[:40]:
            if k in seen_keys:
                continue
            seen_keys.add(k)
            path = os.path.join(VERIF, "replays", pid, k + ".json")
            with open(path, "w") as f:
                json.dump({"property": pid, "case": v["case"], "violation": v["violation"]}, f, indent=1, default=str)
            replay_paths.append(path)
            # every reported violation is first replayed in a FRESH interpreter (twice, inside pv.replay); a violation
            # that depends on what this process happened to run before is not trusted
            if not getattr(mod, "NO_REPRODUCE", False) and confirmed < 2 and tried < 30:
                tried += 1
                r = subprocess.run([sys.executable, "-m", "pv.replay", path], cwd=VERIF, capture_output=True, text=True)
                if r.returncode == 1:
                    confirmed += 1
                elif r.returncode == 0:
                    replay_paths.remove(path)  # listed only if it replays from a fresh interpreter
                    os.remove(path)
                elif r.returncode == 2:
                    sys.stderr.write("BROKEN: replay of %s is not deterministic\n%s\n" % (path, r.stdout[-300:]))
                    return 2
        if tried and not confirmed:
            sys.stderr.write("BROKEN: none of the first %d violations reproduces in a fresh interpreter\n" % tried)
            return 2
        if tried > confirmed:
            print("NOTE: %d reported violation(s) did not reproduce from a fresh interpreter (they depend on earlier calls in the same "
                  "process); %d did" % (tried - confirmed, confirmed))

    nviol_new = len(new) + max(0, unlisted_uncounted)
    cov = {
        "evaluations": int(m["evaluations"]),
        "distinct_nontrivial": int(m["nontrivial"]),
        "rule": mod.RULE,
        "samples": m["samples"][:4] or [{"note": "no sample recorded"}],
        "exhaustive": bool(not m.get("capped")),
        "cases": int(m.get("cases", 0)),
        "case_space": int(m.get("space", 0)),
        "covered_below_index": int(m.get("covered_below_idx", 0)),
        "outcomes": dict(m["outcomes"]),
        "counters": dict(m["extra"]),
        "distinct_results": int(m.get("distinct_results", 0)),
        "lp_calls_intercepted": int(m.get("lp", 0)),
        "oracle_queries": int(m.get("oracle_queries", 0)),
        "workers": int(m.get("workers", 1)),
        "known_findings_hit": attributed,
    }
    for k, src in (("states", "states"), ("transitions", "transitions"), ("traces_validated_against_impl", "traces_validated")):
        if k in m:
            cov[k] = int(m[k])
        elif src in m["extra"]:
            cov[k] = int(m["extra"][src])
    if mod.LEVEL == "model_checking":
        cov.setdefault("traces_validated_against_impl", 0)
    if hasattr(mod, "describe"):
        cov.update(mod.describe(tier, seed))
    doc = {
        "property_id": pid,
        "tier": tier,
        "seed": seed,
        "level": mod.LEVEL,
        "coverage": cov,
        "assumptions": TRUSTED + list(getattr(mod, "ASSUMPTIONS", [])),
        "wall_s": round(time.time() - t0, 2),
        "violations": int(nviol_new),
    }
    write_evidence(pid, doc)
    print(
        "%s tier=%s seed=%d cases=%d/%d executions=%d nontrivial=%d distinct_results=%d exhaustive=%s wall=%.1fs"
        % (pid, tier, seed, cov["cases"], cov["case_space"], cov["evaluations"], cov["distinct_nontrivial"],
           cov["distinct_results"], cov["exhaustive"], doc["wall_s"])
    )
    print("outcomes: " + json.dumps(dict(m["outcomes"]), sort_keys=True))
    if m["extra"]:
        print("counters: " + json.dumps(dict(m["extra"]), sort_keys=True))
    if nviol_new:
        for p in replay_paths:
            print("VIOLATION property=%s replay=%s" % (pid, p))
        print("%d violating executions not listed as known findings" % nviol_new)
        return 1
    return 0


if __name__ == "__main__":
    sys.exit(main())
