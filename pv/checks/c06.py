"""C06 — results are well formed with the prescribed interface; meaningless requests are rejected (E1 + E2 default path)."""
import collections
import itertools

from .. import symalg as SA
from pacti.iocontract import IoContract, Var
from pacti.utils.errors import IncompatibleArgsError

ID = "C06"
LEVEL = "exploration"
RULE = (
    "Exhaustive over interface topologies: every ordered assignment of (role in operand 1, role in operand 2) in "
    "{in,out,absent}^2 \\ {(absent,absent)} to n variables, n<=5 in quick (37448 topologies), n<=6 in thorough (299592); "
    "x 5 mention patterns (empty; maximal; assumptions avoiding the other side's outputs; one-sided) x every "
    "vars_to_keep / additional_inputs from {none, each single variable, all legal} for compose and quotient, plus merge, plus refines / <= (rejected iff the interfaces differ as sets); "
    "symbolic contents under the always-succeed environment (a rejected meaningful request is counted as "
    "'meaningful-request-rejected', not reported: the property prescribes the interface of returned contracts and the rejection of "
    "meaningless requests). "
    "One-contract family: every role assignment of <=4 variables x every (source,target) over names+fresh+absent for "
    "rename, copy, and every ill-formed constructor argument class. Oracle: an independent set-algebra reference of the "
    "prescribed interface written from the property text; returned contracts must be duplicate-free, disjoint, "
    "a.vars within inputs, g.vars within the interface, interface equal to the reference; meaningless requests must "
    "raise IncompatibleArgsError. Non-trivial = a request that was accepted and returned a contract with a non-empty "
    "interface (distinct by construction)."
)
REQUIRED = ["accepted", "rejected", "compared", "refines-rejected", "rename:ok", "rename:rejected", "ctor:rejected", "copy:ok"]
PAIRS = [p for p in itertools.product(SA.ROLES, repeat=2) if p != ("-", "-")]


def cases(tier, seed):
    for n in (1, 2, 3, 4, 5) + ((6,) if tier == "thorough" else ()):
        for roles in itertools.product(PAIRS, repeat=n):
            yield {"fam": "two", "roles": ["".join(r) for r in roles]}
    for n in (1, 2, 3, 4):
        for roles in itertools.product("io", repeat=n):
            yield {"fam": "one", "roles": "".join(roles)}
    for eps in (1.0, 1e-3, 1e-8, 5e-9, 1e-12, -5e-9):
        yield {"fam": "tiny", "eps": eps}


def expected_cases(tier, seed):
    ns = (1, 2, 3, 4, 5) + ((6,) if tier == "thorough" else ())
    return sum(8 ** n for n in ns) + sum(2 ** n for n in (1, 2, 3, 4)) + 6


def _specs(roles, pat):
    vs = ["v%d" % k for k in range(len(roles))]
    i1 = [v for v, r in zip(vs, roles) if r[0] == "i"]
    o1 = [v for v, r in zip(vs, roles) if r[0] == "o"]
    i2 = [v for v, r in zip(vs, roles) if r[1] == "i"]
    o2 = [v for v, r in zip(vs, roles) if r[1] == "o"]

    def lists(ins, outs, other_outs, amode):
        if pat == 0:
            return [], []
        a_vars = {"max": ins, "safe": [v for v in ins if v not in other_outs], "none": None}[amode]
        a = [] if a_vars is None else [["A", list(a_vars)]]
        return a, [["G", ins + outs]]

    m1, m2 = {0: ("none", "none"), 1: ("max", "max"), 2: ("safe", "safe"), 3: ("max", "none"), 4: ("none", "max")}[pat]
    a1, g1 = lists(i1, o1, o2, m1)
    a2, g2 = lists(i2, o2, o1, m2)
    s1 = {"i": i1, "o": o1, "a": [[n + "1", v] for n, v in a1], "g": [[n + "1", v] for n, v in g1]}
    s2 = {"i": i2, "o": o2, "a": [[n + "2", v] for n, v in a2], "g": [[n + "2", v] for n, v in g2]}
    return vs, s1, s2


def _judge(op, ref, outcome, res, sub, agg):
    agg["evaluations"] += 1
    if outcome == "returned":
        agg["outcomes"]["accepted"] += 1
        wf = SA.well_formed(res)
        if wf:
            agg["violations"].append({"sub": sub, "what": "ill-formed result: " + "; ".join(wf)})
        elif ref is None:
            agg["violations"].append({"sub": sub, "what": "%s accepted a request that has no meaning" % op})
        elif {v.name for v in res.inputvars} != ref[0] or {v.name for v in res.outputvars} != ref[1]:
            agg["violations"].append({"sub": sub, "what": "%s interface in=%s out=%s, prescribed in=%s out=%s" % (
                op, [v.name for v in res.inputvars], [v.name for v in res.outputvars], sorted(ref[0]), sorted(ref[1]))})
        if res.inputvars or res.outputvars:
            agg["nontrivial"] += 1
        agg["sigs"].add(hash((op, tuple(v.name for v in res.inputvars), tuple(v.name for v in res.outputvars))))
    elif outcome == "IncompatibleArgsError":
        agg["outcomes"]["rejected"] += 1
        if ref is not None:
            # not a violation of the property as stated (it prescribes the interface of RETURNED contracts and the rejection of
            # meaningless requests); counted so that a loss of completeness is visible in the evidence
            agg["extra"]["meaningful-request-rejected"] += 1
    else:
        agg["outcomes"][outcome] += 1
        agg["violations"].append({"sub": sub, "what": "%s ended with %s instead of a contract or IncompatibleArgsError" % (op, outcome)})


def _two(case):
    roles = [tuple(r) for r in case["roles"]]
    agg = {"evaluations": 0, "outcomes": collections.Counter(), "nontrivial": 0, "violations": [], "extra": collections.Counter(),
           "sigs": set(), "sample": []}
    for pat in range(5):
        vs, s1, s2 = _specs(roles, pat)
        av1 = [v for _, x in s1["a"] for v in x]
        av2 = [v for _, x in s2["a"] for v in x]
        outs = [v for v in vs if v in s1["o"] or v in s2["o"]]
        keeps = [[]] + [[v] for v in vs] + ([outs] if len(outs) > 1 else [])
        non = [v for v in vs if v not in outs]
        if len(non) > 1:
            keeps.append(non[:2])  # two variables that are not outputs
        for keep in keeps:
            env, outcome, res, c1, c2 = SA.run("compose", s1, s2, keep)
            _judge("compose", SA.ref_compose(s1, s2, keep, av1, av2), outcome, res, {"op": "compose", "pat": pat, "arg": keep}, agg)
        legal = [v for v in vs if v in s1["i"] or v in s2["o"]]
        adds = [[]] + [[v] for v in vs] + ([legal] if len(legal) > 1 else [])
        for add in adds:
            env, outcome, res, c1, c2 = SA.run("quotient", s1, s2, add)
            _judge("quotient", SA.ref_quotient(s1, s2, add), outcome, res, {"op": "quotient", "pat": pat, "arg": add}, agg)
        env, outcome, res, c1, c2 = SA.run("merge", s1, s2, [])
        _judge("merge", SA.ref_merge(s1, s2), outcome, res, {"op": "merge", "pat": pat}, agg)
        if pat in (0, 1):
            # refinement across different interfaces has no meaning; equal interfaces (as sets) must be compared
            same = set(s1["i"]) == set(s2["i"]) and set(s1["o"]) == set(s2["o"])
            for opname, f in (("refines", lambda a, b: a.refines(b)), ("<=", lambda a, b: a <= b)):
                SA.ENV = SA.Env()
                agg["evaluations"] += 1
                sub = {"op": opname, "pat": pat}
                try:
                    k1, k2 = SA.mk_contract(s1), SA.mk_contract(s2)
                    r = f(k1, k2)
                    agg["outcomes"]["compared"] += 1
                    if not same:
                        agg["violations"].append({"sub": sub, "what": "%s compared contracts with different interfaces (returned %r)" % (opname, r)})
                except IncompatibleArgsError:
                    agg["outcomes"]["refines-rejected"] += 1
                    if same:
                        agg["violations"].append({"sub": sub, "what": "%s rejected contracts with equal interfaces" % opname})
                except Exception as e:  # noqa
                    agg["violations"].append({"sub": sub, "what": "%s raised %s" % (opname, type(e).__name__)})
                finally:
                    SA.ENV = None
    agg["sample"] = [{"roles": case["roles"], "requests": agg["evaluations"]}]
    return agg


def _ref_rename(ins, outs, src, tgt):
    ins, outs = list(ins), list(outs)
    if src == tgt or (src not in ins and src not in outs):
        return ins, outs
    if src in ins:
        if tgt in outs:
            return None
        if tgt not in ins:
            ins[ins.index(src)] = tgt
        else:
            ins.remove(src)
    else:
        if tgt in ins:
            return None
        if tgt not in outs:
            outs[outs.index(src)] = tgt
        else:
            outs.remove(src)
    return ins, outs


def _one(case):
    roles = case["roles"]
    vs = ["v%d" % k for k in range(len(roles))]
    ins = [v for v, r in zip(vs, roles) if r == "i"]
    outs = [v for v, r in zip(vs, roles) if r == "o"]
    out = []
    spec = {"i": ins, "o": outs, "a": [["A", ins]] if ins else [], "g": [["G", ins + outs]]}
    SA.ENV = SA.Env()
    try:
        c = SA.mk_contract(spec)
        for src in vs + ["absent"]:
            for tgt in vs + ["fresh"]:
                ref = _ref_rename(ins, outs, src, tgt)
                sub = {"op": "rename", "src": src, "tgt": tgt}
                SA.ENV = SA.Env()
                snap = SA._snap(c, c)
                try:
                    r = c.rename_variable(Var(src), Var(tgt))
                    if SA._snap(c, c) != snap:
                        out.append(("rename:modified-operand", True, None, {"sub": sub, "what": "rename_variable modified the contract it was called on"}))
                        c = SA.mk_contract(spec)
                except IncompatibleArgsError:
                    out.append(("rename:rejected", True, None, None, None if ref is None else {"meaningful-request-rejected": 1}))
                    continue
                except Exception as e:  # noqa
                    out.append(("escaped:" + type(e).__name__, False, None, {"sub": sub, "what": "rename raised %s" % type(e).__name__}))
                    continue
                got = ([v.name for v in r.inputvars], [v.name for v in r.outputvars])
                viol = None
                wf = SA.well_formed(r)
                if wf:
                    viol = {"sub": sub, "what": "ill-formed rename result: " + "; ".join(wf)}
                elif ref is None:
                    viol = {"sub": sub, "what": "rename made a variable both input and output without raising"}
                elif (set(got[0]), set(got[1])) != (set(ref[0]), set(ref[1])):
                    viol = {"sub": sub, "what": "rename interface %s, prescribed %s" % (got, ref)}
                else:
                    # every atom's variable set follows the substitution
                    m = lambda n: tgt if n == src else n  # noqa: E731
                    exp_a = sorted({m(n) for n in ins}) if ins else []
                    exp_g = sorted({m(n) for n in ins + outs})
                    if sorted(v.name for v in r.a.vars) != exp_a or sorted(v.name for v in r.g.vars) != exp_g:
                        viol = {"sub": sub, "what": "constraints not renamed consistently"}
                out.append(("rename:ok", True, (tuple(got[0]), tuple(got[1])), viol))
        SA.ENV = SA.Env()
        try:
            k = c.copy()
        except Exception as e:  # noqa
            out.append(("copy:raised", False, None, {"sub": {"op": "copy"}, "what": "copy raised %s" % type(e).__name__}))
            k = c = SA.mk_contract(spec)
        viol = None
        if [v.name for v in k.inputvars] != ins or [v.name for v in k.outputvars] != outs or SA.well_formed(k) \
                or [t.name for t in k.a.terms] != [t.name for t in c.a.terms] or [t.name for t in k.g.terms] != [t.name for t in c.g.terms]:
            viol = {"sub": {"op": "copy"}, "what": "copy differs from the original"}
        out.append(("copy:ok", True, None, viol))
        # ill-formed constructor arguments
        V = {n: Var(n) for n in vs + ["w"]}
        A = SA.SymTermList([SA.SymTerm("A", [V[x] for x in ins])])
        G = SA.SymTermList([SA.SymTerm("G", [V[x] for x in ins + outs])])
        bad = []
        if ins:
            bad.append(("duplicate input", A, G, ins + ins[:1], outs))
            bad.append(("guarantee on a foreign variable", A, SA.SymTermList([SA.SymTerm("G", [V["w"]])]), ins, outs))
        if outs:
            bad.append(("duplicate output", A, G, ins, outs + outs[:1]))
            bad.append(("assumption on an output", SA.SymTermList([SA.SymTerm("A", [V[outs[0]]])]), G, ins, outs))
        if ins and outs:
            bad.append(("input/output overlap", A, G, ins, outs + ins[:1]))
        bad.append(("assumption on a foreign variable", SA.SymTermList([SA.SymTerm("A", [V["w"]])]), G, ins, outs))
        for what, a, g, i_, o_ in bad:
            SA.ENV = SA.Env()
            try:
                IoContract(a, g, [V[x] for x in i_], [V[x] for x in o_])
                out.append(("ctor:accepted", False, None, {"sub": {"op": "ctor", "bad": what}, "what": "constructor accepted ill-formed arguments: " + what}))
            except IncompatibleArgsError:
                out.append(("ctor:rejected", True, None, None))
            except Exception as e:  # noqa
                out.append(("escaped:" + type(e).__name__, False, None, {"sub": {"op": "ctor", "bad": what}, "what": "constructor raised %s for %s" % (type(e).__name__, what)}))
    finally:
        SA.ENV = None
    return out


def _tiny(case):
    """polyhedral contents whose offending variable carries a tiny (but non-zero) coefficient: still a mention of that variable"""
    from ..build import plist, pvars
    from pacti.contracts import PolyhedralIoContract

    eps = case["eps"]
    out = []
    bad = [
        ("assumption on an output", [[{"i": 1, "o": eps}, 1]], [[{"o": 1}, 1]], ["i"], ["o"]),
        ("assumption on a foreign variable", [[{"i": 1, "w": eps}, 1]], [[{"o": 1}, 1]], ["i"], ["o"]),
        ("guarantee on a foreign variable", [[{"i": 1}, 1]], [[{"o": 1, "w": -eps}, 1]], ["i"], ["o"]),
    ]
    for what, a, g, i_, o_ in bad:
        sub = {"op": "ctor", "bad": what, "eps": eps}
        try:
            PolyhedralIoContract(plist(a), plist(g), pvars(i_), pvars(o_))
            out.append(("ctor:accepted", False, None, {"sub": sub, "what": "constructor accepted ill-formed arguments (%s with coefficient %g)" % (what, eps)}))
        except IncompatibleArgsError:
            out.append(("ctor:rejected", True, None, None))
        except Exception as e:  # noqa
            out.append(("escaped:" + type(e).__name__, False, None, {"sub": sub, "what": "constructor raised %s" % type(e).__name__}))
    # feedback onto an input that an assumption constrains (with a tiny coefficient) must be rejected, in both orders
    c1 = PolyhedralIoContract(plist([[{"i": 1, "p": eps}, 1]]), plist([[{"o": 1, "i": -1}, 0]]), pvars(["i", "p"]), pvars(["o"]))
    c2 = PolyhedralIoContract(plist([]), plist([[{"p": 1, "o": -1}, 0]]), pvars(["o"]), pvars(["p"]))
    for a, b, tag in ((c1, c2, "12"), (c2, c1, "21")):
        sub = {"op": "compose-feedback", "call": tag, "eps": eps}
        try:
            r = a.compose(b)
            out.append(("accepted", False, None, {"sub": sub, "what": "feedback onto an input constrained by an assumption (coefficient %g) was accepted" % eps}))
        except IncompatibleArgsError:
            out.append(("rejected", True, None, None))
        except Exception as e:  # noqa
            out.append(("escaped:" + type(e).__name__, False, None, {"sub": sub, "what": "compose raised %s" % type(e).__name__}))
    return out


def run_case(case):
    if case["fam"] == "tiny":
        return _tiny(case)
    return _two(case) if case["fam"] == "two" else _one(case)
