"""C15 — composition and merging never forget an interface-level guarantee (E1, DESIGN.md 4/C15)."""
import itertools

from .. import cgrid
from .. import compsem as CS
from .. import oracle as O
from ..build import contract, jcontract

ID = "C15"
LEVEL = "exploration"
NSLICES = 6
RULE = (
    "E1 exhaustive. overlap: pairs whose guarantees share an interface-level constraint t: shared-input wiring "
    "(t over the common input), cascade and mix wirings with the connection variable kept (t over the kept output) and "
    "not kept, t' on the other side in {identical, scaled by 2, weaker by one step, stronger by one step}; match: a producer "
    "guarantee that discharges the consumer's assumption on a kept connection variable; neardup: guarantees of the two operands "
    "over the same variables that differ in one coefficient only; own "
    "guarantees from a panel, assumptions {none, one term}; exact: every level-0 pair of the independent and "
    "shared-input wirings (no variable to eliminate); merge: every pair of contracts over one interface from a panel with "
    "overlapping terms. Each pair in both call orders x simplify {True,False} x tactics {default, [1],[2]}. Oracle: for every "
    "operand guarantee over the result's interface, no box point satisfies A_C and G_C and breaks it by > tol; without "
    "connections additionally A_C <=> A1&A2 and A_C&G_C <=> A1&A2&G1&G2 (both directions exact box searches). quick = "
    "overlap + merge complete, exact 1/%d slice; thorough = all. Non-trivial = returned result for a pair whose guarantees "
    "share or imply a common interface-level term." % NSLICES
)
REQUIRED = ["returned", "overlap", "exact-checked", "merge"]


def _sc(t, k):
    return [{n: c * k for n, c in t[0].items()}, t[1] * k]


def _overlap_cases():
    own = {
        "share": ([[{"o": 1, "i": -1}, 0], [{"o": 1}, 1], [{"o": -1, "i": 1}, 1]], [[{"p": 1, "i": -2}, 0], [{"p": 1}, 1], [{"p": -1}, 0]]),
        "casc": ([[{"o": 1, "i": -1}, 0], [{"o": -1}, 0]], [[{"p": 1, "o": -1}, 0], [{"p": 1}, 1], [{"p": -1, "o": 1}, 1]]),
        "mix": ([[{"o": 1, "i": -1}, 0]], [[{"p": 1, "o": -1, "j": -1}, 0], [{"p": 1}, 1]]),
    }
    common = {"share": "i", "casc": "o", "mix": "o"}
    for w in ("share", "casc", "mix"):
        i1, o1, i2, o2 = cgrid.WIRINGS[w]
        v = common[w]
        for t in ([{v: 1}, 2], [{v: -1}, 0], [{v: 1}, 5]):
            for tp in (t, _sc(t, 2), [t[0], t[1] + 1], [t[0], t[1] - 1]):
                for g1 in own[w][0]:
                    for g2 in own[w][1]:
                        for a1 in ([], [[{"i": 1}, 3]]):
                            for pos in (0, 1):
                                G1 = [g1, t] if pos else [t, g1]
                                G2 = [g2, tp] if pos else [tp, g2]
                                c1 = {"i": i1, "o": o1, "a": a1, "g": G1}
                                c2 = {"i": i2, "o": o2, "a": [], "g": G2}
                                for keep in ([], [v]) if v in o1 else ([],):
                                    yield {"fam": "overlap", "w": w, "c1": c1, "c2": c2, "keep": keep}


def _match_cases():
    """a producer guarantee that exactly discharges the consumer's assumption, with the connection variable kept"""
    for w, (i1, o1, i2, o2) in (("casc", cgrid.WIRINGS["casc"]), ("mix", cgrid.WIRINGS["mix"])):
        for k in (2, 5):
            for dk in (0, 1):
                for g1x in ([[{"o": -1}, 0]], [[{"o": -1, "i": 1}, 0]], []):
                    for g2 in ([[{"p": 1, "o": -2}, 0]], [[{"p": 1, "o": -1}, 1], [{"p": -1}, 0]]):
                        for a1 in ([], [[{"i": 1}, k]]):
                            c1 = {"i": i1, "o": o1, "a": a1, "g": [[{"o": 1}, k]] + g1x}
                            c2 = {"i": i2, "o": o2, "a": [[{"o": 1}, k + dk]], "g": g2}
                            for keep in ([], ["o"]):
                                yield {"fam": "overlap", "w": w, "c1": c1, "c2": c2, "keep": keep}


def _neardup_cases():
    """guarantees over the same variables with the same constant and last coefficient but another leading coefficient"""
    i1, o1, i2, o2 = ["i", "j"], ["o"], ["i", "j"], ["p"]
    for a, b in itertools.permutations((1, 2, -1, 3), 2):
        for k in (4, 0):
            for pos in (0, 1):
                t1, t2 = [{"i": a, "j": 1}, k], [{"i": b, "j": 1}, k]
                g1 = [t1, [{"o": 1}, 1]] if pos else [[{"o": 1}, 1], t1]
                g2 = [t2, [{"p": 1}, 1]] if pos else [[{"p": 1}, 1], t2]
                yield {"fam": "overlap", "w": "share2", "c1": {"i": i1, "o": o1, "a": [], "g": g1}, "c2": {"i": i2, "o": o2, "a": [], "g": g2}, "keep": []}
                yield {"fam": "merge", "c1": {"i": i1, "o": ["o"], "a": [], "g": [t1]}, "c2": {"i": i2, "o": ["o"], "a": [], "g": [t2, [{"o": 1}, 1]]}}


def _joint_cases():
    """an interface-level guarantee of one operand that is implied only jointly by several terms of both operands; near-equal terms"""
    c1 = {"i": ["i"], "o": ["z"], "a": [], "g": [[{"z": 1, "i": -1}, 0], [{"z": -1}, 0]]}
    c2 = {"i": ["z"], "o": ["y1", "y2"], "a": [], "g": [[{"y1": 1, "z": -1}, 0], [{"y2": 1, "z": 2}, 3], [{"y1": 1, "y2": 1}, 3]]}
    for keep in ([], ["z"]):
        yield {"fam": "overlap", "w": "joint", "c1": c1, "c2": c2, "keep": keep}
    c3 = {"i": ["i"], "o": ["z"], "a": [[{"i": 1}, 4]], "g": [[{"z": 1, "i": -1}, 0], [{"z": -1}, 0]]}
    c4 = {"i": ["z", "j"], "o": ["y"], "a": [], "g": [[{"y": 1, "z": -1, "j": -1}, 0], [{"y": 1, "j": -1}, 4], [{"j": 1}, 9]]}
    yield {"fam": "overlap", "w": "joint", "c1": c3, "c2": c4, "keep": []}
    for f in (1.000008, 0.99999, 1.0002):
        t1 = [{"i": 1, "j": 2.5, "o": 1}, 1]
        t2 = [{"i": f, "j": 2.5, "p": 1}, 1]
        a = {"i": ["i", "j"], "o": ["o"], "a": [], "g": [t1, [{"i": 1, "j": 2.5}, 1]]}
        b = {"i": ["i", "j"], "o": ["p"], "a": [], "g": [t2, [{"i": f, "j": 2.5}, 1]]}
        yield {"fam": "overlap", "w": "neareq", "c1": a, "c2": b, "keep": []}
        yield {"fam": "merge", "c1": {"i": ["i", "j"], "o": ["o"], "a": [], "g": [[{"i": 1, "j": 2.5, "o": 1}, 1]]},
               "c2": {"i": ["i", "j"], "o": ["o"], "a": [], "g": [[{"i": f, "j": 2.5, "o": 1}, 1]]}}
    # sequences: the same contract composed with two partners whose assumptions have equal constants but other coefficients
    p = {"i": ["x1", "x2"], "o": ["y"], "a": [], "g": [[{"y": 1, "x1": -1, "x2": -1}, 0], [{"y": 1}, 8]]}
    q1 = {"i": ["x1", "x2"], "o": ["w"], "a": [[{"x1": 1}, 4], [{"x2": 1}, 4]], "g": [[{"w": 1}, 1]]}
    q2 = {"i": ["x1", "x2"], "o": ["w"], "a": [[{"x1": 1}, 4], [{"x2": -1}, 4]], "g": [[{"w": 1}, 1]]}
    yield {"fam": "seq", "seq": [[p, q1], [p, q2]]}
    yield {"fam": "seq", "seq": [[p, q2], [p, q1]]}


def _merge_cases():
    panel = [[{"i": 1}, 2], [{"o": 1, "i": -1}, 0], [{"o": 1}, 3], [{"o": 2}, 6], [{"o": 1}, 4], [{"o": -1}, 0]]
    A = [[], [[{"i": -1}, 0]], [[{"i": 1}, 1]]]
    for g1 in itertools.combinations(panel, 2):
        for g2 in itertools.combinations(panel, 2):
            for a1 in A:
                for a2 in A[:2]:
                    yield {"fam": "merge", "c1": {"i": ["i"], "o": ["o"], "a": a1, "g": list(g1)},
                           "c2": {"i": ["i"], "o": ["o"], "a": a2, "g": list(g2)}}


def cases(tier, seed):
    sl = seed % NSLICES
    for c in _overlap_cases():
        yield c
    for c in _merge_cases():
        yield c
    for c in _match_cases():
        yield c
    for c in _neardup_cases():
        yield c
    for c in _joint_cases():
        yield c
    k = 0
    for w in ("indep", "share"):
        for c1, c2 in cgrid.pairs(w, 0):
            k += 1
            if tier == "thorough" or k % NSLICES == sl:
                yield {"fam": "exact", "w": w, "c1": c1, "c2": c2, "keep": []}


def describe(tier, seed):
    return {"slice": None if tier == "thorough" else "exact family %d of %d" % (seed % NSLICES, NSLICES)}


def _check(first, second, res, connected, sub):
    f = CS.forgotten(first, second, res)
    if f is not None:
        return {"sub": sub, "what": "operand guarantee %s over the result's interface is not enforced by the result" % CS.show(f[0]),
                "result": jcontract(res), "witness": O.ptjson(f[1])}
    if not connected:
        a1, g1 = CS.R(first)
        a2, g2 = CS.R(second)
        ar, gr = CS.R(res)
        e = CS.equiv(ar, a1 + a2)
        if e is not None:
            return {"sub": sub, "what": "no connection, but result assumptions differ from A1&A2 (%s)" % e[0], "witness": O.ptjson(e[1])}
        e = CS.equiv(ar + gr, a1 + a2 + g1 + g2)
        if e is not None:
            return {"sub": sub, "what": "no connection, but A_C&G_C differs from A1&A2&G1&G2 (%s)" % e[0],
                    "result": jcontract(res), "witness": O.ptjson(e[1])}
    return None


def run_case(case):
    from pacti.utils.errors import IncompatibleArgsError

    out = []
    fam = case["fam"]
    if fam != "seq":
        try:
            c1, c2 = contract(case["c1"]), contract(case["c2"])
        except ValueError:
            return [("construct:ValueError", False, None, None)]
    if fam == "seq":
        for k, (a, b) in enumerate(case["seq"]):
            for x in run_case({"fam": "overlap", "w": "seq", "c1": a, "c2": b, "keep": []}):
                viol = x[3]
                if viol is not None:
                    viol = dict(viol, sub={"seq": k, "inner": viol["sub"]}, what="composition %d of a sequence: %s" % (k, viol["what"]))
                out.append((x[0], True, x[2], viol) + tuple(x[4:]))
        return out
    if fam == "merge":
        for a, b, tag in ((c1, c2, "12"), (c2, c1, "21")):
            sub = {"op": "merge", "call": tag}
            try:
                res = a.merge(b)
            except ValueError:
                out.append(("ValueError", False, None, None))
                continue
            out.append(("returned", True, str(res), _check(a, b, res, False, sub), {"merge": 1}))
        return out
    i1, o1, i2, o2 = cgrid.WIRINGS[case["w"]] if case["w"] in cgrid.WIRINGS else (case["c1"]["i"], case["c1"]["o"], case["c2"]["i"], case["c2"]["o"])
    connected = bool(set(o1) & set(i2)) or bool(set(o2) & set(i1))
    for a, b, tag in ((c1, c2, "12"), (c2, c1, "21")):
        for simplify in (True, False):
            for order in (None, [1], [2]):
                sub = {"op": "compose", "call": tag, "keep": case["keep"], "simplify": simplify, "order": order}
                try:
                    res, _ = a.compose_tactics(b, list(case["keep"]), simplify, order)
                except IncompatibleArgsError:
                    out.append(("IncompatibleArgsError", False, None, None))
                    continue
                except ValueError:
                    out.append(("ValueError", False, None, None))
                    continue
                elim = connected and not (set(case["keep"]) >= ((set(o1) & set(i2)) | (set(o2) & set(i1))))
                extra = {"overlap": 1} if fam == "overlap" else {}
                if not connected:
                    extra["exact-checked"] = 1
                out.append(("returned", fam == "overlap", str(res), _check(a, b, res, connected, sub), extra))
    return out
