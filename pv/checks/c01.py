"""C01 — composition returns a sound abstraction of the exact composition (E1, DESIGN.md 4/C01)."""
import itertools

from .. import cgrid
from .. import compsem as CS
from .. import oracle as O
from ..build import contract, jcontract

ID = "C01"
LEVEL = "exploration"
NSLICES = 16
ORDERS = [[5, 4, 3, 2, 1], [1], [2], [3], [4], [5], []]
RULE = (
    "E1 exhaustive over contract pairs of six wirings (independent, cascade, shared input, feedback, two internal "
    "variables, cascade + external input; contents from cgrid level 0: assumptions <=1 term, guarantees 1 term, "
    "coefficients {-1,0,1}; plus families of consumers whose 2-term guarantees bound their own connection input, of consumer assumptions over two or three internal variables coupled by the producer's rows, and a look-alike sequence). Every pair is composed in both call orders x vars_to_keep in {none, first connection "
    "variable, a non-connection output} x simplify in {True,False} x tactics_order default [1..5]; when the default run "
    "reports that some term needed a tactic, also reversed, each singleton [1]..[5] and [] (the order is only read when a "
    "term needs transformation, so otherwise these executions are identical). quick = complete core (first 80 pairs of "
    "every wiring) + one 1/%d slice of all pairs; thorough = all pairs. Oracle: exact search for a box point where "
    "C's assumptions hold, both components honour their contracts (own assumptions with 1e-7 slack) and an operand "
    "assumption or a guarantee of C is broken by > 1e-4(1+|c|). Non-trivial = returned and at least one tactic "
    "invocation recorded." % NSLICES
)
REQUIRED = ["returned", "IncompatibleArgsError", "wiring:indep", "wiring:casc", "wiring:share", "wiring:fb", "wiring:casc2", "wiring:mix",
            "tactics-used", "order-variants"]


def cases(tier, seed):
    sl = seed % NSLICES
    for w in cgrid.WIRINGS:
        for k, (c1, c2) in enumerate(cgrid.pairs(w, 0)):
            if tier == "thorough" or k < 80 or k % NSLICES == sl:
                yield {"w": w, "c1": c1, "c2": c2}
    from .. import grids

    for c in grids.dedupe(_selfbound()):
        yield c
    for c in _coupled():
        yield c
    # the same consumer composed with two look-alike producers (gains equal to 4 significant digits), one after the other
    for g1, g2 in ((7.0001, 7.0004), (7.0004, 7.0001)):
        cons = {"i": ["o"], "o": ["p"], "a": [[{"o": 1}, 7]], "g": [[{"p": 1, "o": -2}, 0]]}
        yield {"w": "casc", "fam": "seq", "seq": [[{"i": ["i"], "o": ["o"], "a": [], "g": [[{"o": 1, "i": -g}, 0]]}, cons] for g in (g1, g2)]}
    if tier == "thorough":
        # richer contents (2-term guarantees, coefficients up to 2): one complete 1/400 slice per wiring, rotated by the seed
        for w in ("casc", "share", "fb", "mix"):
            for k, (c1, c2) in enumerate(cgrid.pairs(w, 1)):
                if k % 400 == seed % 400:
                    yield {"w": w, "c1": c1, "c2": c2, "fam": "level1"}


def _selfbound():
    """consumers whose guarantees bound their own (connection) input jointly - the shape on which a circular context matters"""
    for w in ("casc", "mix"):
        i1, o1, i2, o2 = cgrid.WIRINGS[w]
        for k in (1, 5):
            for a2 in ([[{"o": 1}, k]], [[{"o": 1}, k + 2]], [[{"o": -1}, 0]]):
                for g2 in ([[{"o": 1, "p": -1}, 0], [{"p": 1}, k]], [[{"o": 1, "p": 1}, k], [{"p": -1}, 0]], [[{"o": -1, "p": 1}, 0], [{"p": -1}, 0]]):
                    for g1 in ([[{"o": 1, "i": -2}, 0]], [[{"o": 1, "i": -1}, 1], [{"o": -1}, 0]], [[{"o": -1, "i": 1}, 0]]):
                        for a1 in ([], [[{"i": 1}, 10]]):
                            yield {"w": w, "c1": {"i": i1, "o": o1, "a": a1, "g": g1}, "c2": {"i": i2, "o": o2, "a": a2, "g": g2}, "fam": "selfbound"}


def _coupled():
    """consumer terms over two or three internal variables that the producer's rows couple (Kaykobad / LP-active-row shapes)"""
    K = (-2, 1, 2)
    rows2 = [(a, b) for a in K for b in K]
    for (a, b), (c, d) in itertools.combinations(rows2, 2):
        for sg in (1, -1):
            c1 = {"i": ["i"], "o": ["o", "q"], "a": [], "g": [[{"o": a * sg, "q": b * sg, "i": -1}, 0], [{"o": c * sg, "q": d * sg, "i": -1}, 1]]}
            c2 = {"i": ["o", "q"], "o": ["p"], "a": [[{"o": sg, "q": sg}, 10]], "g": [[{"p": 1, "o": -1, "q": -1}, 0]]}
            yield {"w": "casc2", "c1": c1, "c2": c2, "fam": "coupled"}
    for off in itertools.product((0, 1), repeat=6):
        if sum(off) not in (2, 3):
            continue
        rows = [{"o": 1, "q": off[0], "r": off[1]}, {"o": off[2], "q": 1, "r": off[3]}, {"o": off[4], "q": off[5], "r": 1}]
        c1 = {"i": ["i"], "o": ["o", "q", "r"], "a": [], "g": [[{**{n: v for n, v in r.items() if v}, "i": -1}, 1] for r in rows]}
        for co in ((1, 1, 1), (2, 3, 2)):
            c2 = {"i": ["o", "q", "r"], "o": ["p"], "a": [[{"o": co[0], "q": co[1], "r": co[2]}, 10]], "g": [[{"p": 1, "o": -1}, 0]]}
            yield {"w": "casc3", "c1": c1, "c2": c2, "fam": "coupled"}


def describe(tier, seed):
    return {"slice": None if tier == "thorough" else "%d of %d" % (seed % NSLICES, NSLICES)}


def keeps(w, first, second):
    if w not in cgrid.WIRINGS:
        return [[]]
    i1, o1, i2, o2 = cgrid.WIRINGS[w]
    conn = [v for v in o1 if v in i2] + [v for v in o2 if v in i1]
    non = [v for v in o1 + o2 if v not in conn]
    out = [[]]
    if conn:
        out.append(conn[:1])
    if non:
        out.append(non[:1])
    return out


def run_one(a, b, keep, simplify, order, sub, out, extra_base):
    from pacti.utils.errors import IncompatibleArgsError

    before = (jcontract(a), jcontract(b))
    try:
        res, stats = a.compose_tactics(b, list(keep), simplify, None if order is None else list(order))
    except IncompatibleArgsError:
        if (jcontract(a), jcontract(b)) != before:
            out.append(("modified-operand", False, None, {"sub": sub, "what": "compose modified an operand contract in place (while refusing)"}, extra_base))
            return None
        out.append(("IncompatibleArgsError", False, None, None, extra_base))
        return None
    except ValueError:
        out.append(("ValueError", False, None, None, extra_base))
        return None
    except Exception as e:  # noqa
        out.append(("escaped:" + type(e).__name__, False, None,
                    {"sub": sub, "what": "compose raised %s: %s" % (type(e).__name__, str(e)[:120])}, extra_base))
        return None
    used = sorted({t[0] for st in stats for t in st if t[0] > 0})
    invoked = any(st for st in stats)
    viol = None
    if (jcontract(a), jcontract(b)) != before:
        out.append(("modified-operand", False, None, {"sub": sub, "what": "compose modified an operand contract in place"}, extra_base))
        return invoked
    w = CS.compose_unsound(a, b, res)
    if w is not None:
        viol = {"sub": sub, "what": "composition is not a sound abstraction", "result": jcontract(res), "tactics": used, "witness": O.ptjson(w)}
    extra = dict(extra_base)
    if used:
        extra["tactics-used"] = 1
    out.append(("returned", bool(used), (sub["order_"], simplify, tuple(keep), str(res)), viol, extra))
    return invoked


def run_case(case):
    if case.get("fam") == "seq":
        out = []
        for k, (a, b) in enumerate(case["seq"]):
            for r in run_case({"w": case["w"], "c1": a, "c2": b}):
                viol = r[3]
                if viol is not None:
                    viol = dict(viol, sub={"seq": k, "inner": viol["sub"]}, what="composition %d of a sequence of look-alike compositions: %s" % (k, viol["what"]))
                out.append((r[0], r[1], r[2], viol) + tuple(r[4:]))
        return out
    c1, c2 = contract(case["c1"]), contract(case["c2"])
    out = []
    base = {"wiring:" + (case["w"] if case["w"] in cgrid.WIRINGS else "casc2"): 1}
    for first, second, tag in ((c1, c2, "12"), (c2, c1, "21")):
        for keep in keeps(case["w"], first, second):
            for simplify in (True, False):
                sub = {"call": tag, "keep": keep, "simplify": simplify, "order": None, "order_": "default"}
                invoked = run_one(first, second, keep, simplify, None, sub, out, base)
                if invoked:
                    for order in ORDERS:
                        sub = {"call": tag, "keep": keep, "simplify": simplify, "order": order, "order_": str(order)}
                        run_one(first, second, keep, simplify, order, sub, out, {"order-variants": 1})
    return out
