"""C08 — merging is the exact conjunction of the two viewpoints (E1, DESIGN.md 4/C08)."""
from .. import cgrid
from .. import compsem as CS
from .. import oracle as O
from ..build import contract, jcontract

ID = "C08"
LEVEL = "exploration"
NSLICES = 12
SHAPES = {
    "identical": (["i"], ["o"], ["i"], ["o"]),
    "shared-inputs": (["i"], ["o"], ["i"], ["p"]),
    "shared-outputs": (["i"], ["o"], ["j"], ["o"]),
    "disjoint": (["i"], ["o"], ["j"], ["p"]),
    "clash": (["i"], ["o"], ["o"], ["p"]),
}
RULE = (
    "E1 exhaustive: all ordered pairs of contracts over five interface shapes (identical, shared inputs, shared outputs, "
    "disjoint, and input/output clash which must be rejected); contents: assumptions <=1 term, guarantees 1 term (core, "
    "complete in quick) or 1-2 terms incl. duplicated and mutually redundant terms across the operands (rich: one 1/%d slice in "
    "quick, complete in thorough). Oracle: interface = unions; A_M <=> A1&A2 and A_M&G_M <=> A1&A2&G1&G2, each direction an "
    "exact box search; merge(a,b) and merge(b,a) agree in interface and meaning; ValueError only if A1&A2&G1&G2 is "
    "infeasible. Non-trivial = returned with both operands non-empty." % NSLICES
)
REQUIRED = ["returned", "IncompatibleArgsError", "shape:identical", "shape:shared-inputs", "shape:shared-outputs", "shape:disjoint"]


def _pairs(shape, level):
    i1, o1, i2, o2 = SHAPES[shape]
    A1, G1 = cgrid.side(i1, o1, level)
    A2, G2 = cgrid.side(i2, o2, level)
    for g1 in G1:
        for g2 in G2:
            for a1 in A1:
                for a2 in A2:
                    yield {"shape": shape, "c1": {"i": i1, "o": o1, "a": a1, "g": g1}, "c2": {"i": i2, "o": o2, "a": a2, "g": g2}}


def _special():
    io = {"i": ["i", "j"], "o": ["o"]}
    # near-parallel guarantees across the operands (equal to ~5 significant digits): both must survive
    for f in (1.00001, 0.999992, 1.0001):
        for t in ([{"o": 1, "i": -1}, 0], [{"o": 1, "i": 1, "j": 2.5}, 1]):
            tp = [{**t[0], "i": t[0]["i"] * f}, t[1]]
            yield {"shape": "identical", "c1": {**io, "a": [], "g": [t]}, "c2": {**io, "a": [], "g": [tp]}, "special": "near-parallel"}
            yield {"shape": "identical", "c1": {**io, "a": [[{"i": 1}, 1000]], "g": [t, [{"o": -1}, 0]]}, "c2": {**io, "a": [], "g": [[{"o": 1}, 2000], tp]},
                   "special": "near-parallel"}
    # an assumption of one operand that the other operand's guarantees imply must stay an assumption of the merge
    for k in (5, 10):
        yield {"shape": "identical", "c1": {**io, "a": [[{"i": 1}, k]], "g": [[{"o": 1}, 9]]}, "c2": {**io, "a": [], "g": [[{"i": 1, "o": -1}, 0], [{"o": 1}, 3]]},
               "special": "implied-assumption"}
        yield {"shape": "identical", "c1": {**io, "a": [[{"i": 1, "j": 2}, k]], "g": [[{"o": 1}, 9]]},
               "c2": {**io, "a": [[{"j": -1}, 0]], "g": [[{"i": 1, "j": 2, "o": -1}, 0], [{"o": 1}, 8]]}, "special": "implied-assumption"}
    # the same left operand merged with two different partners, one after the other
    c1 = {"i": ["i"], "o": ["o"], "a": [], "g": [[{"o": 1, "i": -1}, 0]]}
    c2 = {"i": ["i", "v"], "o": ["o"], "a": [], "g": [[{"o": 1, "v": -1}, 1]]}
    c3 = {"i": ["i"], "o": ["o", "v"], "a": [], "g": [[{"v": 1, "i": -1}, 0]]}
    yield {"shape": "sequence", "seq": [c1, c2, c3]}
    yield {"shape": "sequence", "seq": [c1, c3, c2]}


def cases(tier, seed):
    for c in _special():
        yield c
    sl = seed % NSLICES
    for sh in SHAPES:
        for k, c in enumerate(_pairs(sh, 0)):
            if sh != "clash" or k % 30 == 0:
                yield c
    k = 0
    for sh in ("identical", "shared-inputs", "shared-outputs"):
        for c in _pairs(sh, 1):
            if len(c["c1"]["g"]) + len(c["c2"]["g"]) < 3:
                continue
            k += 1
            if (tier == "thorough" and k % 8 == sl % 8) or (tier != "thorough" and k % (8 * NSLICES) == sl):
                c["rich"] = True
                yield c


def describe(tier, seed):
    return {"slice": "rich family: 1/8 of level-1 pairs in thorough, 1/%d in quick (seed %d)" % (8 * NSLICES, seed)}


def run_case(case):
    from pacti.utils.errors import IncompatibleArgsError

    if case["shape"] == "sequence":
        a, b, c = (contract(x) for x in case["seq"])
        out = []
        for k, partner in enumerate((b, c)):
            sub = {"seq": k}
            try:
                m = a.merge(partner)
            except Exception as e:  # noqa
                out.append(("sequence:raised", False, None, {"sub": sub, "what": "merge %d of the same left operand with a well-formed partner raised %s" % (k, type(e).__name__)}))
                continue
            want_i = set(case["seq"][0]["i"]) | set(case["seq"][k + 1]["i"])
            want_o = set(case["seq"][0]["o"]) | set(case["seq"][k + 1]["o"])
            viol = None
            if {v.name for v in m.inputvars} != want_i or {v.name for v in m.outputvars} != want_o:
                viol = {"sub": sub, "what": "merge %d of the same left operand: interface in=%s out=%s is not the union in=%s out=%s" % (
                    k, sorted(v.name for v in m.inputvars), sorted(v.name for v in m.outputvars), sorted(want_i), sorted(want_o))}
            out.append(("returned", True, str(m), viol, {"shape:sequence": 1}))
        return out

    try:
        c1, c2 = contract(case["c1"]), contract(case["c2"])
    except ValueError:
        return [("construct:ValueError", False, None, None)]
    a1, g1 = CS.R(c1)
    a2, g2 = CS.R(c2)
    out = []
    results = []
    for a, b, tag in ((c1, c2, "12"), (c2, c1, "21")):
        sub = {"call": tag}
        try:
            m = a.merge(b)
        except IncompatibleArgsError:
            viol = None if case["shape"] == "clash" else {"sub": sub, "what": "merge rejected contracts whose union interface is well formed"}
            out.append(("IncompatibleArgsError", False, None, viol))
            continue
        except ValueError:
            viol = None
            if O.feasible(a1 + a2 + g1 + g2):
                viol = {"sub": sub, "what": "merge raised ValueError although A1&A2&G1&G2 is satisfiable"}
            out.append(("ValueError", False, None, viol))
            continue
        except Exception as e:  # noqa
            out.append(("escaped:" + type(e).__name__, False, None, {"sub": sub, "what": "merge raised %s" % type(e).__name__}))
            continue
        viol = None
        if case["shape"] == "clash":
            viol = {"sub": sub, "what": "merge accepted a variable that is an input of one operand and an output of the other"}
        else:
            ins = {v.name for v in m.inputvars}
            outs = {v.name for v in m.outputvars}
            if ins != set(case["c1"]["i"]) | set(case["c2"]["i"]) or outs != set(case["c1"]["o"]) | set(case["c2"]["o"]):
                viol = {"sub": sub, "what": "merged interface is not the union of the interfaces"}
            else:
                am, gm = CS.R(m)
                e = CS.equiv(am, a1 + a2)
                if e is not None:
                    viol = {"sub": sub, "what": "merged assumptions differ from A1&A2 (%s)" % e[0], "result": jcontract(m), "witness": O.ptjson(e[1])}
                else:
                    e = CS.equiv(am + gm, a1 + a2 + g1 + g2)
                    if e is not None:
                        viol = {"sub": sub, "what": "A_M&G_M differs from A1&A2&G1&G2 (%s)" % e[0], "result": jcontract(m), "witness": O.ptjson(e[1])}
            results.append(m)
        nt = bool(case["c1"]["g"]) and bool(case["c2"]["g"])
        out.append(("returned", nt, str(m), viol, {"shape:" + case["shape"]: 1}))
    if len(results) == 2:
        m1, m2 = results
        viol = None
        if {v.name for v in m1.inputvars} != {v.name for v in m2.inputvars} or {v.name for v in m1.outputvars} != {v.name for v in m2.outputvars}:
            viol = {"sub": {"call": "both"}, "what": "merge(a,b) and merge(b,a) have different interfaces"}
        else:
            e = CS.equiv(sum(CS.R(m1), []), sum(CS.R(m2), []))
            if e is not None:
                viol = {"sub": {"call": "both"}, "what": "merge(a,b) and merge(b,a) differ in meaning", "witness": O.ptjson(e[1])}
        out.append(("commutes", False, None, viol))
    return out
