"""C09 — parsing a constraint string preserves its arithmetic meaning (E1 over programs, DESIGN.md 4/C09).

Expression trees are generated from the documented BNF (docs/polyhedral-term-syntax.md), evaluated by an
independent exact piecewise-linear reference semantics, rendered in every combination of spelling choices, parsed by
the real parser, and the parsed inequalities are compared with the written relation for ALL real points.
"""
import itertools
from fractions import Fraction as F

from .. import oracle as O

ID = "C09"
LEVEL = "exploration"
NSLICES = 10
RULE = (
    "E1 over programs: expression trees from the documented BNF. Items: constant, c*v, c*(linear), c*|linear|, "
    "c*(|linear| +- item); sides: sums of 1-3 signed items; relations <=, >=, =, ==, chains of three sides; variables "
    "x,y,z,t; coefficients {implicit 1, 2, 3, 0.5}; includes the same |e| repeated on one side and across sides with "
    "cancelling and non-cancelling coefficients. Families lin, abs1, rep, par, chain complete in quick; abs2, deep: one 1/%d "
    "slice in quick, complete in thorough. Every tree is rendered in every combination of spacing {none, single, wide} x "
    "multiplication {2x, 2 x, 2*x} x number spelling {2, 2., 2.0, 20e-1, (4/2)} x leading '+' {no, yes} (all 90 spellings "
    "for the rep and chain families; 18 spellings covering every pair of choices for the others). Oracle: exact reference semantics over rationals; (1) accepted => "
    "parsed inequalities <=> written relation for all real points (absolute values as case splits, margin 1e-9); (2) trees "
    "whose absolute values all have positive net sign on the smaller side must be accepted; (3) negative or zero net sign "
    "=> convexity error or an equivalent translation; (4) all spellings of a tree fall in one outcome class and mean the "
    "same; (5) a panel of malformed strings must raise the syntax error; arith: every parenthesised constant expression of 2-3 operands "
    "from {1,2,4} with + - * / used as coefficient, constant and factor of a parenthesis / absolute value must, when accepted, carry "
    "its arithmetic value; (6) each string parsed twice, and again after the "
    "whole tree's spellings, gives the same result. Non-trivial = accepted string with a coefficient != 1, an absolute "
    "value or a parenthesis; distinct strings counted."
    % NSLICES
)
REQUIRED = ["accepted", "convexity-error", "arith:accepted", "must-accept", "may-reject", "malformed:syntax-error", "equiv-checked"]

# ------------------------------------------------------------------ trees
V = ["x", "y", "z", "t"]


def var(c, v):
    return ["var", c, v]


def num(k):
    return ["num", k]


def par(c, side):
    return ["par", c, side]


def ab(c, side):
    return ["abs", c, side]


def S(*items):
    """side from (sign, node) pairs"""
    return [list(it) for it in items]


def lin_sides(small=False):
    """linear sides LS"""
    atoms = [var(None, "x"), var(2, "x"), var(None, "y"), var(0.5, "y"), num(1), num(2)] if not small else \
        [var(None, "x"), var(2, "y"), num(1)]
    out = []
    for a in atoms:
        out.append(S(("+", a)))
        if a[0] == "var":
            out.append(S(("-", a)))
    for a, b in itertools.product(atoms, repeat=2):
        if a[0] == "num" and b[0] == "num":
            continue
        for sg in "+-":
            out.append(S(("+", a), (sg, b)))
    return out


def families():
    LS = lin_sides()
    LSs = lin_sides(small=True)
    rhs = [S(("+", num(1))), S(("+", num(0))), S(("+", var(None, "z"))), S(("+", var(None, "z")), ("+", num(2)))]
    # lin: linear relation
    for op in ("<=", ">=", "=", "=="):
        for a in LS:
            for b in rhs:
                yield "lin", [op, [a, b]]
    for a in LSs:
        for b in LSs:
            yield "lin", ["<=", [a, b]]
    # abs1: one absolute value, any sign, either side
    inner = [S(("+", var(None, "x"))), S(("-", var(None, "x"))), S(("+", var(None, "x")), ("-", var(None, "y"))),
             S(("+", var(2, "x")), ("+", num(1))), S(("+", var(None, "x")), ("+", var(None, "x"))),
             S(("-", var(0.5, "t")), ("+", var(None, "y")))]
    for e in inner:
        for c in (None, 2, 0.5):
            for sg in "+-":
                for extra in (None, ("+", var(None, "z")), ("-", var(3, "z")), ("+", num(1))):
                    side = S((sg, ab(c, e))) + ([list(extra)] if extra else [])
                    for op in ("<=", ">="):
                        for b in rhs[:3]:
                            yield "abs1", [op, [side, b]]
                            yield "abs1", [op, [b, side]]
                    if extra:
                        side2 = [list(extra)] + S((sg, ab(c, e)))
                        yield "abs1", ["<=", [side2, rhs[0]]]
    # rep: the same absolute value repeated, on one side and across sides
    for e in inner[:4]:
        for c1, c2 in itertools.product((None, 2, 3), repeat=2):
            for s1, s2 in itertools.product("+-", repeat=2):
                yield "rep", ["<=", [S((s1, ab(c1, e)), (s2, ab(c2, e))), S(("+", num(2)))]]
                yield "rep", ["<=", [S((s1, ab(c1, e))), S((s2, ab(c2, e)), ("+", num(2)))]]
                yield "rep", [">=", [S(("+", num(6))), S((s1, ab(c1, e)), (s2, ab(c2, e)))]]
        for s1, s2, s3 in itertools.product("+-", repeat=3):
            for c3 in (None, 2):
                yield "rep", ["<=", [S((s1, ab(None, e)), (s2, ab(None, e)), (s3, ab(c3, e))), S(("+", num(3)))]]
                yield "rep", ["<=", [S((s1, ab(None, e))), S((s2, ab(None, e)), (s3, ab(c3, e)), ("+", num(4)))]]
        yield "rep", ["<=", [S(("+", ab(None, e)), ("+", ab(None, e)), ("+", ab(None, e))), S(("+", num(3)))]]
        yield "rep", ["<=", [S(("+", ab(None, e)), ("+", var(None, "z")), ("+", ab(2, e))), S(("+", num(3)))]]
    # bigabs: absolute values whose inner coefficients agree to 4 significant digits are different terms
    for c1, c2 in ((10001, 10004), (1.2341, 1.2344), (12341, 12344), (0.50001, 0.50004)):
        for rest in (None, ("-", var(None, "y"))):
            e1 = S(("+", var(c1, "x"))) + ([list(rest)] if rest else [])
            e2 = S(("+", var(c2, "x"))) + ([list(rest)] if rest else [])
            yield "rep", ["<=", [S(("+", ab(None, e1)), ("+", ab(None, e2))), S(("+", num(2)))]]
            yield "rep", ["<=", [S(("+", ab(2, e1)), ("+", ab(None, e2)), ("+", var(None, "z"))), S(("+", num(3)))]]
            yield "rep", [">=", [S(("+", num(6))), S(("+", ab(None, e2)), ("+", ab(3, e1)))]]
            yield "rep", ["<=", [S(("+", ab(None, e1))), S(("-", ab(None, e2)), ("+", num(2)))]]
    # zero: absolute values with an explicit or accumulated zero coefficient on the side that gets negated; cancel: the variable of an
    # absolute value also occurs outside it, so that one sign combination cancels every variable
    for e in inner[:3]:
        for c in (None, 2):
            yield "rep", ["<=", [S(("+", ab(c, e))), S(("+", ab(None, e)), ("-", ab(None, e)), ("+", num(4)))]]
            yield "rep", ["<=", [S(("+", ab(c, e))), S(("+", num(3)), ("+", ab(0, e)))]]
            yield "rep", ["<=", [S(("+", ab(c, e)), ("+", ab(None, inner[3]))), S(("+", num(6)), ("-", par(None, S(("+", ab(None, inner[3])), ("-", ab(None, inner[3]))))))]]
            yield "rep", [">=", [S(("+", ab(None, e)), ("-", ab(None, e)), ("+", num(4))), S(("+", ab(c, e)))]]
    for k in (1, -1, 0, 2):
        for c in (None, 2):
            yield "rep", ["<=", [S(("+", ab(c, S(("+", var(None, "x"))))), ), S(("+", var(None, "x")), ("+", num(k)) if k >= 0 else ("-", num(-k)))]]
            yield "rep", ["<=", [S(("+", ab(c, S(("+", var(None, "x")), ("-", var(None, "y"))))), ), S(("+", var(None, "x")), ("-", var(None, "y")), ("+", num(k)) if k >= 0 else ("-", num(-k)))]]
    for a, b, k in ((1, 1, 1), (1, 1, 2), (1, 1, 4), (1, 2, 1), (2, 1, 3)):
        e1 = S(("+", var(None, "x")), ("-", num(a)))
        e2 = S(("+", var(None, "x")), ("+", num(b)))
        yield "rep", ["<=", [S(("+", ab(None, e1)), ("+", ab(None, e2))), S(("+", num(k)))]]
        yield "rep", ["<=", [S(("+", ab(None, e1))), S(("-", ab(None, e2)), ("+", num(k)))]]
    # par: parenthesised linear and absolute sides
    for e in inner[:5]:
        for c in (None, 2, 0.5):
            for sg in "+-":
                yield "par", ["<=", [S((sg, par(c, e))), S(("+", num(1)))]]
                yield "par", ["<=", [S(("+", var(None, "z")), (sg, par(c, e))), S(("+", num(1)))]]
                yield "par", [">=", [S(("+", num(4))), S((sg, par(c, e)), ("+", num(1)))]]
                yield "par", ["=", [S((sg, par(c, e))), S(("+", var(None, "z")))]]
                yield "par", ["<=", [S((sg, par(c, S(("+", ab(None, e)), ("-", var(None, "z")))))), S(("+", num(4)))]]
                yield "par", ["<=", [S((sg, par(c, S(("+", var(None, "z")), ("+", ab(2, e)))))), S(("+", num(4)))]]
    # chain: three sides
    mids = [S(("+", var(None, "x"))), S(("+", var(2, "x")), ("-", var(None, "y"))), S(("+", num(2))),
            S(("+", ab(None, inner[0]))), S(("+", ab(2, inner[2])), ("+", num(1))), S(("-", ab(None, inner[0])), ("+", var(None, "y")))]
    los = [S(("+", num(0))), S(("+", var(None, "z"))), S(("+", ab(None, inner[0]))), S(("+", ab(2, inner[2])), ("+", num(1)))]
    his = [S(("+", num(5))), S(("+", var(None, "t"))), S(("+", ab(None, inner[1])))]
    for lo in los:
        for m in mids:
            for hi in his:
                yield "chain", ["<=", [lo, m, hi]]
                yield "chain", [">=", [hi, m, lo]]
    # abs2: two different absolute values
    for e1, e2 in itertools.product(inner, repeat=2):
        if e1 == e2:
            continue
        for c1, c2 in ((None, None), (2, None), (None, 3), (0.5, 2)):
            for s2 in "+-":
                yield "abs2", ["<=", [S(("+", ab(c1, e1)), (s2, ab(c2, e2))), S(("+", num(3)))]]
                yield "abs2", ["<=", [S(("+", ab(c1, e1))), S((s2, ab(c2, e2)), ("+", num(3)))]]
                yield "abs2", [">=", [S(("+", num(3)), ("+", var(None, "z"))), S(("+", ab(c1, e1)), (s2, ab(c2, e2)))]]
    # deep: depth 3 — parenthesised sides containing parentheses and absolute values
    for e in inner[:4]:
        for c in (None, 2):
            for d in (None, 3):
                p1 = par(c, S(("+", var(None, "z")), ("-", par(d, e))))
                p2 = par(c, S(("+", ab(d, e)), ("+", var(None, "z"))))
                p3 = ab(c, S(("+", par(d, e)), ("-", num(1))))
                for node in (p1, p2, p3):
                    for sg in "+-":
                        yield "deep", ["<=", [S((sg, node)), S(("+", num(2)))]]
                        yield "deep", ["<=", [S(("+", var(None, "t")), (sg, node)), S(("+", num(2)), ("+", var(None, "y")))]]
                        yield "deep", [">=", [S(("+", num(2))), S((sg, node), ("-", var(None, "t")))]]


def arith_exprs():
    """constant arithmetic: 2-3 operands from {1,2,4}, operators + - * / with the usual precedence, left associative"""
    ops = "+-*/"
    nums = (1, 2, 4)
    out = []
    for a, o1, b in itertools.product(nums, ops, nums):
        out.append(([a, b], [o1]))
        for o2, c in itertools.product(ops, nums):
            out.append(([a, b, c], [o1, o2]))
    return out


def arith_value(nums, ops):
    vals = [F(n) for n in nums]
    ops = list(ops)
    i = 0
    while i < len(ops):  # multiplicative pass, left to right
        if ops[i] in "*/":
            vals[i] = vals[i] * vals[i + 1] if ops[i] == "*" else vals[i] / vals[i + 1]
            del vals[i + 1], ops[i]
        else:
            i += 1
    acc = vals[0]
    for o, v in zip(ops, vals[1:]):
        acc = acc + v if o == "+" else acc - v
    return acc


SLICED = ("abs2", "deep")
FULLSP = ("rep", "chain")


def cases(tier, seed):
    sl = seed % NSLICES
    seen = set()
    k = 0
    for fam, tree in families():
        key = repr(tree)
        if key in seen:
            continue
        seen.add(key)
        if fam in SLICED and tier != "thorough":
            k += 1
            if k % NSLICES != sl:
                continue
        yield {"fam": fam, "tree": tree}
    yield {"fam": "malformed"}
    for nums, ops in arith_exprs():
        yield {"fam": "arith", "nums": nums, "ops": ops}


def describe(tier, seed):
    return {"slice": None if tier == "thorough" else "abs2/deep %d of %d" % (seed % NSLICES, NSLICES)}


# ------------------------------------------------------------------ rendering
NUMSP = {
    1: ["1", "1.", "1.0", "10e-1", "(2/2)"],
    2: ["2", "2.", "2.0", "20e-1", "(4/2)"],
    3: ["3", "3.", "3.0", "30e-1", "(6/2)"],
    0.5: ["0.5", ".5", "0.50", "5e-1", "(1/2)"],
    0: ["0", "0.", "0.0", "0e1", "(0/2)"],
    4: ["4", "4.", "4.0", "40e-1", "(8/2)"],
    5: ["5", "5.", "5.0", "50e-1", "(10/2)"],
    6: ["6", "6.", "6.0", "60e-1", "(12/2)"],
}


def render(tree, sp, mu, ns, lead):
    """sp: 0 none,1 single,2 wide; mu: 0 '2x',1 '2 x',2 '2*x'; ns: number spelling index; lead: leading '+'"""
    gap = ["", " ", "  "][sp]

    def n(k):
        if k in NUMSP:
            return NUMSP[k][ns]
        r = repr(k)
        return [r, r, r + ("0" if "." in r else ".0"), r, "(%s/1)" % r][ns]

    def mul(c):
        if c is None:
            return ""
        return n(c) + ["", " ", gap + "*" + gap][mu]

    def node(nd):
        k = nd[0]
        if k == "num":
            return n(nd[1])
        if k == "var":
            return mul(nd[1]) + nd[2]
        if k == "par":
            return mul(nd[1]) + "(" + gap + side(nd[2], False) + gap + ")"
        if k == "abs":
            return mul(nd[1]) + "|" + gap + side(nd[2], False) + gap + "|"
        raise ValueError(k)

    def side(s, top):
        out = ""
        for i, (sg, nd) in enumerate(s):
            if i == 0:
                if sg == "-":
                    out += "-" + gap
                elif lead and top:
                    out += "+" + gap
            else:
                out += gap + sg + gap
            out += node(nd)
        return out

    op, sides = tree
    return (gap + op + gap).join(side(s, True) for s in sides)


ALL_SP = list(itertools.product(range(3), range(3), range(5), (0, 1)))
COVER = [(0, 0, 0, 0), (1, 1, 1, 1), (2, 2, 2, 0), (0, 1, 3, 1), (1, 2, 4, 0), (2, 0, 4, 1), (1, 0, 2, 0), (0, 2, 1, 1), (2, 1, 0, 0),
         (1, 1, 3, 0), (0, 0, 4, 1), (2, 2, 1, 1), (1, 2, 0, 1), (0, 1, 2, 0), (2, 0, 3, 0), (0, 2, 0, 0), (1, 0, 1, 1), (2, 1, 4, 0)]


# ------------------------------------------------------------------ reference semantics
class Lin:
    """linear form over variables and absolute-value auxiliaries"""

    def __init__(self):
        self.co = {}
        self.k = F(0)

    def add(self, other, m=F(1)):
        for n_, c in other.co.items():
            self.co[n_] = self.co.get(n_, F(0)) + m * c
        self.k += m * other.k
        return self


def lin_of_side(s, defs):
    acc = Lin()
    for sg, nd in s:
        m = F(1) if sg == "+" else F(-1)
        acc.add(lin_of_node(nd, defs), m)
    return acc


def lin_of_node(nd, defs):
    k = nd[0]
    r = Lin()
    if k == "num":
        r.k = F(nd[1])
    elif k == "var":
        r.co[nd[2]] = F(1) if nd[1] is None else F(nd[1])
    elif k == "par":
        r.add(lin_of_side(nd[2], defs), F(1) if nd[1] is None else F(nd[1]))
    elif k == "abs":
        inner = lin_of_side(nd[2], defs)
        aux = "_a%d" % len(defs)
        defs.append((aux, inner))
        r.co[aux] = F(1) if nd[1] is None else F(nd[1])
    return r


def _rt(l, negate=False):
    """Lin (meaning l <= 0) -> RT"""
    m = -1 if negate else 1
    return (tuple(sorted((n_, m * c) for n_, c in l.co.items() if c != 0)), -m * l.k)


EPS = F(1, 10**9)


def reference(tree):
    """returns (D formula, list of relation RTs meaning all must hold, abs net signs per relation)"""
    op, sides = tree
    defs = []
    lins = [lin_of_side(s, defs) for s in sides]
    rels = []
    nets = []
    for a, b in zip(lins, lins[1:]):
        d = Lin().add(a).add(b, F(-1))  # a - b
        if op == "<=":
            rels.append(_rt(d))
            nets.append({n_: c for n_, c in d.co.items() if n_.startswith("_a")})
        elif op == ">=":
            rels.append(_rt(d, True))
            nets.append({n_: -c for n_, c in d.co.items() if n_.startswith("_a")})
        else:
            rels.append(_rt(d))
            rels.append(_rt(d, True))
            nets.append({n_: c for n_, c in d.co.items() if n_.startswith("_a")})
            nets.append({n_: -c for n_, c in d.co.items() if n_.startswith("_a")})
    D = []
    for aux, inner in defs:
        pos = _rt(inner, True)  # -inner <= 0  i.e. inner >= 0
        neg = _rt(inner)  # inner <= 0
        t_eq_in = Lin()
        t_eq_in.co = dict(inner.co)
        t_eq_in.k = inner.k
        # t - inner = 0 ; t + inner = 0
        e1 = Lin().add(inner, F(-1))
        e1.co[aux] = e1.co.get(aux, F(0)) + 1
        e2 = Lin().add(inner, F(1))
        e2.co[aux] = e2.co.get(aux, F(0)) + 1
        D.append(O.OR(O.AND(O.sat([pos, _rt(e1), _rt(e1, True)])), O.AND(O.sat([neg, _rt(e2), _rt(e2, True)]))))
    return O.AND(*D) if D else O.TRUE, rels, nets


def classify(nets):
    allpos = all(c > 0 for d in nets for c in d.values())
    return "must-accept" if allpos else "may-reject"


def equivalent(D, rels, parsed):
    """None if parsed <=> written for all real points, else (direction, witness)"""
    W = O.sat(rels)
    notW = O.OR([("gt", r, EPS * (1 + abs(r[1]))) for r in rels])
    T = O.sat(parsed)
    notT = O.OR([("gt", p, EPS * (1 + abs(p[1]))) for p in parsed])
    w = O.find_point(O.AND(D, W, notT), box=None)
    if w is not None:
        return "written relation holds but a parsed inequality fails", w
    w = O.find_point(O.AND(D, notW, T), box=None)
    if w is not None:
        return "parsed inequalities hold but the written relation fails", w
    return None


MALFORMED = ["x <= ", "<= 1", "x + + y <= 1", "x y <= 1", "2 3 x <= 1", "x <= 1 >= y", "x = 1 = y", "x < 1", "x <== 1", "|x <= 1",
             "(x <= 1", "x) <= 1", "x * 2 <= 1", "x / 2 <= 1", "", "x", "1", "x <= y <", "x += 1", "2**x <= 1", "x^2 <= 1",
             "|x + |y|| <= 1", "$x <= 1", "x <= 1;", "x <= 1 <=", "x => 1", "x =< 1", "1x2 <= <= 3", "x - <= 1", "(x + 1 <= 2", "x + 1) <= 2",
             "|x| |y| <= 1", "2 | x <= 1", "(1/0) x <= 1", "x <= (2/0)", "(4/(2-2))x <= 1", "x <= 1 2", "x,y <= 1", "x <= .", "x <= 1..2", "_x <= 1", "3 = = x"]


def parse(s):
    from pacti.terms.polyhedra.serializer import polyhedral_termlist_from_string
    from pacti.utils.errors import PolyhedralSyntaxConvexException, PolyhedralSyntaxException

    try:
        r = polyhedral_termlist_from_string(s)
        return "accepted", r
    except PolyhedralSyntaxConvexException as e:
        return "convexity-error", None
    except PolyhedralSyntaxException as e:
        return "syntax-error", None
    except Exception as e:  # noqa
        return "escaped:" + type(e).__name__, None


def run_case(case):
    out = []
    if case["fam"] == "malformed":
        for s in MALFORMED:
            oc, r = parse(s)
            viol = None
            if oc != "syntax-error":
                viol = {"sub": {"string": s}, "what": "malformed string did not raise the syntax error (outcome %s)" % oc}
            out.append(("malformed:" + oc, False, None, viol))
        return out
    if case["fam"] == "arith":
        return run_arith(case)
    tree = case["tree"]
    D, rels, nets = reference(tree)
    cls = classify(nets)
    spellings = ALL_SP if case["fam"] in FULLSP else COVER
    verified = {}
    classes = {}
    strings = []
    seen_str = set()
    for spv in spellings:
        s = render(tree, *spv)
        if s in seen_str:
            continue
        seen_str.add(s)
        strings.append(s)
        oc, r = parse(s)
        if r is not None:
            first = list(r)
            r.append(None)  # a caller that edits the list it got back must not influence the next parse
            r = first
        oc2, r2 = parse(s)
        sub = {"string": s}
        viol = None
        sig = None
        if oc.startswith("escaped"):
            viol = {"sub": sub, "what": "parser raised %s" % oc[8:]}
        elif oc != oc2 or (r is not None and [str(a) for a in r] != [str(a) for a in r2]):
            viol = {"sub": sub, "what": "parsing the same string twice gave different results"}
        elif oc == "accepted":
            parsed = [O.rt(t) for t in r]
            sig = tuple(sorted(parsed))
            if sig not in verified:
                verified[sig] = equivalent(D, rels, parsed)
            bad = verified[sig]
            if bad is not None:
                viol = {"sub": sub, "what": "meaning changed by parsing: " + bad[0], "parsed": [str(t) for t in r], "witness": O.ptjson(bad[1])}
        elif cls == "must-accept" and oc == "convexity-error":
            viol = {"sub": sub, "what": "all absolute values occur with positive sign on the smaller side, but the string was rejected as non-convex"}
        classes.setdefault(oc, s)
        nontriv = oc == "accepted" and any(ch in s for ch in "|(*235")
        out.append((oc, nontriv, hash(sig) if sig is not None else None, viol, {cls: 1, "equiv-checked": 1} if oc == "accepted" else {cls: 1}))
    if len(classes) > 1:
        out.append(("spelling-split", False, None, {"sub": {"tree": "spellings"}, "what": "spellings of one expression fall in different outcome classes: %s" % classes}))
    elif cls == "must-accept" and "accepted" not in classes and case["fam"] != "syntaxonly":
        out.append(("rejected-all", False, None, {"sub": {"tree": "all"}, "what": "an expression of the documented grammar with convex absolute values is rejected in every spelling (%s)" % list(classes)}))
    # determinism after the whole panel
    for s in strings[:3]:
        oc, r = parse(s)
        oc0 = [k for k, v in classes.items()]
        if oc not in classes:
            out.append(("nondeterministic", False, None, {"sub": {"string": s, "again": True}, "what": "re-parsing after the panel changed the outcome"}))
    return out


def run_arith(case):
    """parenthesised constant arithmetic used as a coefficient and as a constant"""
    nums, ops = case["nums"], case["ops"]
    val = arith_value(nums, ops)
    out = []
    if nums == [1, 1] and ops == ["+"]:
        # literals with an explicit exponent sign (the printer emits them for magnitudes >= 1e4)
        for s, ref in (("x <= 1E+2", [O.mk({"x": 1}, 100)]), ("2e+0 x <= 1", [O.mk({"x": 2}, 1)]), ("1.5e+04 x - y <= 2e+04", [O.mk({"x": 15000, "y": -1}, 20000)]),
                       ("x <= 5e-1", [O.mk({"x": 1}, 0.5)]), ("3.0E+00|x| <= 6", [O.mk({"x": 3}, 6), O.mk({"x": -3}, 6)])):
            oc, r = parse(s)
            viol = None
            if oc != "accepted":
                viol = {"sub": {"string": s}, "what": "a number with an explicit exponent sign is not accepted (%s)" % oc}
            else:
                parsed = [O.rt(t) for t in r]
                if sorted(parsed) != sorted(ref) and not _same(parsed, ref):
                    viol = {"sub": {"string": s}, "what": "literal with exponent parsed as %s" % [str(t) for t in r]}
            out.append(("arith:" + oc, True, None, viol, {"equiv-checked": 1}))
    for gap in ("", " "):
        text = "(" + gap.join(str(x) for pair in zip(nums, ops + [""]) for x in pair if x != "") + ")"
        templates = [
            (text + "x <= 1", [O.mk({"x": val}, 1)]),
            ("x <= " + text, [O.mk({"x": 1}, val)]),
            ("y + " + text + " * x >= 2", [O.mk({"y": -1, "x": -val}, -2)]),
            (text + "(x + 1) <= 3", [O.mk({"x": val}, 3 - val)]),
            (text + "|x| <= 4", [O.mk({"x": val}, 4), O.mk({"x": -val}, 4)] if val > 0 else None),
        ]
        for s, ref in templates:
            oc, r = parse(s)
            oc2, r2 = parse(s)
            sub = {"string": s}
            viol = None
            if oc.startswith("escaped"):
                viol = {"sub": sub, "what": "parser raised %s" % oc[8:]}
            elif oc != oc2:
                viol = {"sub": sub, "what": "parsing the same string twice gave different outcomes"}
            elif oc == "accepted" and ref is not None:
                parsed = [O.rt(t) for t in r]
                if sorted(parsed) != sorted(ref) and not _same(parsed, ref):
                    viol = {"sub": sub, "what": "constant arithmetic %s has the value %s, but the string was parsed as %s" % (text, val, [str(t) for t in r])}
            elif oc == "accepted" and ref is None:
                # non-positive coefficient on an absolute value: only an equivalent translation is admissible
                pass
            out.append(("arith:" + oc, oc == "accepted", None, viol, {"equiv-checked": 1} if oc == "accepted" else None))
    return out


def _same(t1, t2):
    for a, b in ((t1, t2), (t2, t1)):
        if b and O.find_point(O.AND(O.sat(a), O.OR([("gt", t, EPS * (1 + abs(t[1]))) for t in b])), box=None) is not None:
            return False
    return True
