"""C05 — the algebra layer is sound for any constraint domain meeting the primitive specs (E2, model checking).

Case = (operation, interface topology, mention pattern, kept/additional variables); the case is explored by
enumerating EVERY answer sequence of the abstract primitives (deviation-bounded, complete for n<=2 in thorough)
on the real IoContract code; every returned result must satisfy the C01/C02/C08 obligation as a consequence of
the recorded primitive facts (Horn entailment, cross-checked by truth table), be well formed, and no exception
other than ValueError / IncompatibleArgsError may escape.
"""
import collections
import itertools

from .. import grids
from .. import symalg as SA

ID = "C05"
LEVEL = "model_checking"
NSLICES = 8
RULE = (
    "E2: real IoContract.compose/quotient/merge executed on a symbolic TermList. Topologies: every assignment of "
    "(role in operand 1, role in operand 2) in {in,out,absent}^2 \\ {(absent,absent)} to n variables (all 64 ordered "
    "assignments for n<=2, all multisets for n=3,4); mention patterns: each of A1,G1,A2,G2 is empty, one atom over any "
    "subset of the variables it may mention (n>=3: none / first / all), or two atoms; shared-atom variants (A2=G1, "
    "G1=G2, A1=A2, A1=G2) for n<=3; arguments: every legal vars_to_keep / additional_inputs subset (n>=3: none, one, "
    "all) and one illegal one. Environment answers per primitive call: refine {fresh, empty, ValueError, leftover}, "
    "relax {fresh, empty, ValueError, drop-dirty-terms}, simplify {same, ValueError, drop first, drop last}, "
    "refines {True, False}; each answer records the Horn fact its documented contract promises. Deviation bound "
    "(non-default answers): quick n<=2: 2, n=3: 1 (1/%d slice); thorough n<=2: complete trees, n=3: 3, n=4: 2. "
    "states = distinct (case, answer-prefix) nodes, transitions = primitive answers taken. Non-trivial execution = "
    "returned a contract after at least one primitive call; distinct by construction (distinct answer sequences)."
    % NSLICES
)
REQUIRED = ["conf:ok", "conf-answer:refine:fresh", "conf-answer:refine:leftover", "conf-answer:relax:fresh", "conf-answer:refines:True",
            "conf-answer:refines:False", "conf-answer:simplify:dropfirst", "conf-outcome:returned", "conf-outcome:IncompatibleArgsError",
            "returned", "ValueError", "IncompatibleArgsError", "obligation:C01", "obligation:C02", "obligation:C08:A_M=>A1&A2",
            "answer:leftover", "answer:empty", "answer:error", "answer:dropdirty", "answer:dropfirst", "answer:False"]
PAIRS = [p for p in itertools.product(SA.ROLES, repeat=2) if p != ("-", "-")]


def topologies(n):
    if n <= 2:
        return list(itertools.product(PAIRS, repeat=n))
    return list(itertools.combinations_with_replacement(PAIRS, n))


def _allowed(roles):
    vs = ["v%d" % k for k in range(len(roles))]
    i1 = [v for v, r in zip(vs, roles) if r[0] == "i"]
    o1 = [v for v, r in zip(vs, roles) if r[0] == "o"]
    i2 = [v for v, r in zip(vs, roles) if r[1] == "i"]
    o2 = [v for v, r in zip(vs, roles) if r[1] == "o"]
    return i1, o1, i2, o2


def _opts(allowed, n, two):
    out = [[]]
    if n <= 2:
        for s in grids.subsets(allowed):
            out.append([s])
        if two and allowed:
            out.append([list(allowed), []])
    else:
        out.append([[]])
        if allowed:
            out.append([allowed[:1]])
            if len(allowed) > 1:
                out.append([list(allowed)])
            if two:
                out.append([list(allowed), allowed[-1:]])
    return out


def _arg_opts(legal, illegal, n):
    if n <= 2:
        out = list(grids.subsets(legal))
    else:
        out = [[]]
        if legal:
            out.append(legal[:1])
            if len(legal) > 1:
                out.append(list(legal))
    if illegal:
        out.append(illegal[:1])
    return out


def _cases_for(n):
    for roles in topologies(n):
        i1, o1, i2, o2 = _allowed(roles)
        vs = ["v%d" % k for k in range(n)]
        for a1 in _opts(i1, n, False):
            for g1 in _opts(i1 + o1, n, True):
                for a2 in _opts(i2, n, n <= 1):
                    for g2 in _opts(i2 + o2, n, True):
                        pat = [a1, g1, a2, g2]
                        shares = [""]
                        if n <= 3:
                            if a2 and g1 and a2[0] == g1[0]:
                                shares.append("a2=g1")
                            if g1 and g2 and g1[0] == g2[0]:
                                shares.append("g1=g2")
                            if a1 and a2 and a1[0] == a2[0]:
                                shares.append("a1=a2")
                            if a1 and g2 and a1[0] == g2[0]:
                                shares.append("a1=g2")
                        for sh in shares:
                            outs = [v for v in vs if v in o1 or v in o2]
                            non = [v for v in vs if v not in outs]
                            for keep in _arg_opts(outs, non, n):
                                yield {"op": "compose", "n": n, "roles": ["".join(r) for r in roles], "pat": pat, "share": sh, "arg": keep}
                            legal = [v for v in vs if v in i1 or v in o2]
                            ill = [v for v in vs if v not in legal]
                            for add in _arg_opts(legal, ill, n):
                                yield {"op": "quotient", "n": n, "roles": ["".join(r) for r in roles], "pat": pat, "share": sh, "arg": add}
                            yield {"op": "merge", "n": n, "roles": ["".join(r) for r in roles], "pat": pat, "share": sh, "arg": []}


def bound_for(tier, n):
    if tier == "thorough":
        return {0: None, 1: None, 2: None, 3: 3, 4: 2}[n]
    return {0: None, 1: None, 2: 2, 3: 1, 4: 0}[n]


def cases(tier, seed):
    sl = seed % NSLICES
    k = 0
    for c in _conf_cases(tier, seed):
        yield c
    for n in (1, 2):
        for c in _cases_for(n):
            yield c
    ks = collections.Counter()
    for n in (3, 4) if tier == "thorough" else (3,):
        for c in _cases_for(n):
            if tier == "thorough":
                yield c
            else:
                ks[c["op"]] += 1
                if ks[c["op"]] % NSLICES == sl:
                    yield c


def _conf_cases(tier, seed):
    """concrete polyhedral requests whose primitive traces are replayed against the model"""
    from .. import cgrid

    stride = 3 if tier == "thorough" else 23
    off = seed % stride
    for w in cgrid.WIRINGS:
        outs = sorted(set(cgrid.WIRINGS[w][1]) | set(cgrid.WIRINGS[w][3]))
        for k, (c1, c2) in enumerate(cgrid.pairs(w, 0)):
            if k % stride != off:
                continue
            for simp in (True, False):
                yield {"conf": True, "op": "compose", "w": w, "c1": c1, "c2": c2, "arg": [], "simplify": simp}
                yield {"conf": True, "op": "compose", "w": w, "c1": c2, "c2": c1, "arg": outs[:1], "simplify": simp}
                yield {"conf": True, "op": "quotient", "w": w, "c1": c1, "c2": c2, "arg": [], "simplify": simp, "via": "composition"}
            yield {"conf": True, "op": "quotient", "w": w, "c1": c2, "c2": c1, "arg": [], "simplify": True}
            yield {"conf": True, "op": "merge", "w": w, "c1": c1, "c2": c2, "arg": [], "simplify": True}


def _run_conf(case):
    from .. import conform
    from ..build import contract, jcontract

    j1, j2 = case["c1"], case["c2"]
    if case.get("via") == "composition":
        # dividend = c1 composed with c2 (so that a quotient exists), divisor = c1
        try:
            top = contract(j1).compose(contract(j2))
        except ValueError:
            return {"evaluations": 1, "outcomes": collections.Counter({"conf:skip": 1}), "nontrivial": 0, "violations": [], "extra": {}}
        j1, j2 = jcontract(top), j1
    st, detail = conform.conform(case["op"], j1, j2, case["arg"], case["simplify"])
    agg = {"evaluations": 1, "outcomes": collections.Counter({"conf:" + st: 1}), "nontrivial": 0, "violations": [],
           "extra": collections.Counter(), "sample": []}
    if st == "ok":
        agg["extra"]["traces_validated"] = 1
        agg["extra"]["conf-outcome:" + detail["outcome"]] = 1
        agg["extra"]["conf-fallbacks"] = detail["fallbacks"]
        for kind, ans in detail["calls"]:
            agg["extra"]["conf-answer:%s:%s" % (kind, ans)] += 1
        agg["nontrivial"] = 1 if detail["calls"] else 0
        agg["sample"] = [detail]
    elif st == "mismatch":
        agg["violations"].append({"sub": {"conf": True}, "what": "model/implementation conformance: " + detail})
    return agg


def describe(tier, seed):
    return {"deviation_bounds": {str(n): bound_for(tier, n) for n in (1, 2, 3, 4)},
            "slice": None if tier == "thorough" else "n=3: %d of %d" % (seed % NSLICES, NSLICES)}


def specs(case):
    roles = [tuple(r) for r in case["roles"]]
    i1, o1, i2, o2 = _allowed(roles)
    a1, g1, a2, g2 = case["pat"]
    nm = {"A1": a1, "G1": g1, "A2": a2, "G2": g2}
    atoms = {k: [[k + "abc"[j], list(vs)] for j, vs in enumerate(v)] for k, v in nm.items()}
    sh = case.get("share", "")
    if sh == "a2=g1":
        atoms["A2"][0][0] = atoms["G1"][0][0]
    elif sh == "g1=g2":
        atoms["G2"][0][0] = atoms["G1"][0][0]
    elif sh == "a1=a2":
        atoms["A2"][0][0] = atoms["A1"][0][0]
    elif sh == "a1=g2":
        atoms["G2"][0][0] = atoms["A1"][0][0]
    s1 = {"i": i1, "o": o1, "a": atoms["A1"], "g": atoms["G1"]}
    s2 = {"i": i2, "o": o2, "a": atoms["A2"], "g": atoms["G2"]}
    return s1, s2


def reference(case, s1, s2):
    if case["op"] == "compose":
        av1 = [v for _, vs in s1["a"] for v in vs]
        av2 = [v for _, vs in s2["a"] for v in vs]
        return SA.ref_compose(s1, s2, case["arg"], av1, av2)
    if case["op"] == "quotient":
        return SA.ref_quotient(s1, s2, case["arg"])
    return SA.ref_merge(s1, s2)


def run_case(case):
    if case.get("conf"):
        return _run_conf(case)
    s1, s2 = specs(case)
    op = case["op"]
    b = bound_for(_tier(), case["n"])
    agg = {"evaluations": 0, "outcomes": collections.Counter(), "nontrivial": 0, "violations": [], "extra": collections.Counter(),
           "sigs": set(), "sample": []}
    ref = reference(case, s1, s2)

    def visit(env, outcome, res, c1, c2):
        agg["evaluations"] += 1
        agg["outcomes"][outcome] += 1
        path = [t[1][t[2]] for t in env.trace]
        for t in env.trace:
            if t[2]:
                agg["extra"]["answer:" + t[1][t[2]]] += 1
        new_edges = len(env.trace) - max(0, len(env.prefix) - 1)
        agg["extra"]["transitions"] += new_edges
        sub = {"path": path}
        if len(agg["sample"]) < 2:
            agg["sample"].append({"answers": ["%s:%s" % (t[0], t[1][t[2]]) for t in env.trace], "outcome": outcome})
        if SA.operands_modified(env):
            agg["violations"].append({"sub": sub, "what": "%s modified one of its operand contracts in place" % op})
            return
        if outcome.startswith("escaped"):
            agg["violations"].append({"sub": sub, "what": "%s escaped from %s: %s" % (outcome[8:], op, str(res)[:160])})
            return
        if outcome == "returned":
            if env.trace:
                agg["nontrivial"] += 1
            agg["sigs"].add(hash((tuple(t.name for t in res.a.terms), tuple(t.name for t in res.g.terms),
                                  tuple(v.name for v in res.inputvars), tuple(v.name for v in res.outputvars))))
            wf = SA.well_formed(res)
            if wf:
                agg["violations"].append({"sub": sub, "what": "ill-formed result: " + "; ".join(wf)})
                return
            if ref is None:
                agg["violations"].append({"sub": sub, "what": "a request with no meaning was accepted (interface %s / %s)" % (
                    [v.name for v in res.inputvars], [v.name for v in res.outputvars])})
                return
            if {v.name for v in res.inputvars} != ref[0] or {v.name for v in res.outputvars} != ref[1]:
                agg["violations"].append({"sub": sub, "what": "interface differs from the prescribed one: got in=%s out=%s, prescribed in=%s out=%s" % (
                    sorted(v.name for v in res.inputvars), sorted(v.name for v in res.outputvars), sorted(ref[0]), sorted(ref[1]))})
                return
            for label, ok, missing, rules, start in SA.obligations(op, c1, c2, res, env):
                agg["extra"]["obligation:" + label] += 1
                atoms = set(start) | set(missing)
                for h, c in rules:
                    atoms |= h | c
                if len(atoms) <= 10:
                    goal = set(missing) if not ok else set()
                    # independent truth-table decision of the same entailment on small atom sets
                    tt = SA.truth_table_entails(start, rules, SA.closure(start, rules) | goal, atoms) if ok else \
                        SA.truth_table_entails(start, rules, goal, atoms)
                    if tt != ok:
                        raise SA.ExplorerError("closure and truth table disagree")
                if not ok:
                    agg["violations"].append({
                        "sub": sub, "what": "obligation %s is not entailed by the primitive facts: cannot derive %s" % (label, missing),
                        "facts": [[sorted(h), sorted(c)] for h, c in env.facts],
                        "countermodel_true_atoms": sorted(SA.closure(start, rules)),
                        "result": {"a": [str(t) for t in res.a.terms], "g": [str(t) for t in res.g.terms]}})
        elif outcome == "IncompatibleArgsError" and ref is not None and all(t[2] == 0 for t in env.trace):
            # always-succeed environment: every meaningful request must be accepted
            agg["extra"]["meaningful-request-rejected"] += 1  # completeness is not part of the property as stated: counted, not a violation

    n = SA.explore_tree(op, s1, s2, case["arg"], b, visit)
    agg["extra"]["states"] += agg["extra"]["transitions"] + 1
    return agg


def _tier():
    import os

    return os.environ.get("PV_TIER", "quick")


def replay(doc):
    """replay one recorded answer sequence on the real algebra (no exploration)"""
    case = doc["case"]
    s1, s2 = specs(case)
    want = doc["violation"]["sub"]["path"]
    seen = []
    for _ in range(2):
        env, outcome, res, c1, c2 = SA.run(case["op"], s1, s2, case["arg"], force=list(want) + ["?"] * 0)
        seen.append((outcome, [t[1][t[2]] for t in env.trace]))
    print("replayed answers %s -> %s" % (seen[0][1], seen[0][0]))
    if seen[0] != seen[1]:
        print("BROKEN: nondeterministic replay")
        return 2
    import os

    os.environ["PV_TIER"] = "thorough"
    r = run_case(case)
    hit = [v for v in r["violations"] if v["sub"]["path"] == want]
    if hit:
        print("REPRODUCED property=C05 " + hit[0]["what"])
        return 1
    print("NOT-REPRODUCED property=C05")
    return 0
