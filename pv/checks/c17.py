"""C17 — compound (disjunctive) contracts behave as unions of polyhedra (E1, DESIGN.md 4/C17)."""
import itertools
from fractions import Fraction as F

from .. import oracle as O
from ..build import plist, pvars

ID = "C17"
LEVEL = "exploration"
NSLICES = 10
RULE = (
    "E1 exhaustive. Alternatives are intervals / half-lines / points / empty sets of one variable on the lattice {0..3} and "
    "boxes, half-planes and triangles of two variables, so that every pair is disjoint, touching (sharing only a boundary), "
    "overlapping, nested or empty by construction. ctor: every nested list of 2-3 one-variable alternatives and every pair of "
    "two-variable alternatives built with force_empty_intersection: ValueError iff two alternatives share a behaviour (exact "
    "feasibility; touching counts); member: contains_behavior of every nested list on lattice behaviours incl. boundaries = some "
    "alternative contains it, unassigned variable -> ValueError; le: all ordered pairs of nested lists: True only if the left "
    "union is contained in the right union; merge: all ordered pairs of compound contracts (disjoint assumption alternatives x "
    "guarantee alternatives): merged alternatives' union <=> intersection of the operands' unions for assumptions and for "
    "guarantees (exact search with disjunctions), no empty alternative kept, interface = unions. quick: ctor/member/le complete "
    "for one variable, merge 1/%d slice; thorough: everything. Non-trivial = nested lists with >= 2 alternatives." % NSLICES
)
REQUIRED = ["ctor:ValueError", "ctor:accepted", "touching", "overlapping", "disjoint", "member:in", "member:out", "le:True", "le:False", "merge:returned",
            "empty-alternative-dropped"]


def interval(v, lo, hi):
    t = []
    if hi is not None:
        t.append([{v: 1}, hi])
    if lo is not None:
        t.append([{v: -1}, -lo])
    return t


def alts1(v="i"):
    out = []
    for lo in (0, 1, 2, 3):
        for hi in (0, 1, 2, 3):
            if hi >= lo:
                out.append(interval(v, lo, hi))
    out.append(interval(v, None, 1))
    out.append(interval(v, 2, None))
    out.append(interval(v, 2, 1))  # empty
    return out


def alts2():
    out = []
    for x in ((0, 1), (1, 2), (0, 2), (2, 3)):
        for y in ((0, 1), (1, 2)):
            out.append(interval("i", *x) + interval("o", *y))
    out.append([[{"i": 1, "o": 1}, 2], [{"i": -1}, 0], [{"o": -1}, 0]])  # triangle
    out.append([[{"i": 1, "o": -1}, 0]])  # half-plane
    out.append(interval("i", 3, None) + interval("o", 0, 0))
    return out


def _all():
    A = alts1()
    for n in (2, 3):
        for combo in itertools.combinations(A, n):
            yield {"fam": "ctor", "alts": list(combo)}
    for a, b in itertools.combinations(alts2(), 2):
        yield {"fam": "ctor", "alts": [a, b], "two": True}
    # alternatives over different variables always share behaviours; alternatives far from the origin
    Ao = alts1("o")
    for a in A[:6] + A[-3:]:
        for b in Ao[:6] + Ao[-3:]:
            yield {"fam": "ctor", "alts": [a, b], "mixed": True}
            yield {"fam": "ctor", "alts": [a, interval("i", 5, 6), b], "mixed": True}
    for n in (1, 2):
        for combo in itertools.combinations(A, n):
            yield {"fam": "member", "alts": list(combo)}
    # <= with a large unrelated constant in the left alternative, overshooting a right facet by a little more than the tolerance
    for d in (0.0005, 0.004, 0.05):
        for big in ([{"o": -1}, 900], [{"o": 5, "i": 1}, 9000]):
            yield {"fam": "le", "L": [[[{"i": 1}, d], big]], "R": [[[{"i": 1}, 0]]]}
            yield {"fam": "le", "L": [[[{"i": 1}, d], big], interval("i", 2, 3)], "R": [[[{"i": 1}, 0]], interval("i", 2, 3)]}
    # sequences of merges whose intersections print alike
    for a, d in ((1.2, 0.0004), (1200, 0.45), (10, 0.001)):
        yield {"fam": "mergeseq", "seq": [[interval("o", None, a), interval("o", a + d, None)], [interval("o", None, a + d), interval("o", a - d, None)]]}
        yield {"fam": "mergeseq", "seq": [[interval("o", None, a + d), interval("o", a - d, None)], [interval("o", None, a), interval("o", a + d, None)]]}
    lists = [list(c) for n in (1, 2) for c in itertools.combinations(A[::2], n)]
    for L in lists:
        for R in lists:
            yield {"fam": "le", "L": L, "R": R}
    # compound contracts built from strings: the empty alternative means "true"; guarantees carrying a guard on the input
    for a in ([[]], [["i <= 1"], ["i >= 2", "i <= 3"]], [["i <= 0"]], []):
        for g in ([[]], [["o <= 1"], ["o >= 2", "o <= 5"]], [["i <= 0", "o <= 1"], ["i >= 2", "o >= 5"]], [["o - i <= 0"], ["i >= 2", "o >= 3"]], []):
            yield {"fam": "strings", "a": a, "g": g}
    # merge: disjoint assumption alternative lists x guarantee lists
    disj = [[interval("i", 0, 1), interval("i", 2, 3)], [interval("i", 0, 0), interval("i", 1, 2)], [interval("i", None, 1), interval("i", 2, None)],
            [interval("i", 1, 3)], [interval("i", 0, 1), interval("i", 3, 3)], [interval("i", 2, 1), interval("i", 0, 2)]]
    G = alts1("o")
    glists = [[g] for g in G[:6]] + [[G[0], G[7]], [G[1], G[5]], [G[10], G[11]], [G[2], G[12]]]
    glists += [[interval("o", 0, 1), interval("o", 0, 3)], [interval("o", 0, 3), interval("o", 1, 2)], [interval("o", None, 1), interval("o", None, 3)]]  # nested
    for a1 in disj:
        for a2 in disj:
            for g1 in glists:
                for g2 in glists:
                    yield {"fam": "merge", "a1": a1, "g1": g1, "a2": a2, "g2": g2}


def _all2():
    """thorough only: two-variable alternatives (boxes, triangle, half-plane) in membership, <= and merge"""
    B = alts2()
    for n in (1, 2):
        for combo in itertools.combinations(B, n):
            yield {"fam": "member2", "alts": list(combo)}
    lists = [list(c) for n in (1, 2) for c in itertools.combinations(B[::2], n)]
    for L in lists:
        for R in lists:
            yield {"fam": "le", "L": L, "R": R, "two": True}
    A = alts1()
    l3 = [list(c) for n in (1, 2, 3) for c in itertools.combinations(A[::3], n)]
    for L in l3:
        for R in l3:
            yield {"fam": "le", "L": L, "R": R, "three": True}
    # merges of compound contracts whose guarantees are two-variable alternatives
    ga = [[interval("i", 0, 1) + interval("o", 0, 1)], [interval("i", 0, 2) + interval("o", 1, 2), [[{"i": 1, "o": -1}, 0]]],
          [[[{"i": 1, "o": 1}, 2], [{"i": -1}, 0], [{"o": -1}, 0]]], [interval("o", 2, 1)], [interval("o", 0, 3), interval("i", 1, 1) + interval("o", 1, 1)]]
    da = [[interval("i", 0, 1), interval("i", 2, 3)], [interval("i", None, 1), interval("i", 2, None)], [interval("i", 1, 3)]]
    for a1 in da:
        for a2 in da:
            for g1 in ga:
                for g2 in ga:
                    yield {"fam": "merge", "a1": a1, "g1": g1, "a2": a2, "g2": g2, "two": True}


def cases(tier, seed):
    if tier == "thorough":
        for c in _all2():
            yield c
    sl = seed % NSLICES
    k = 0
    for c in _all():
        if tier == "thorough" or c["fam"] != "merge":
            yield c
        else:
            k += 1
            if k % NSLICES == sl:
                yield c


def describe(tier, seed):
    return {"slice": None if tier == "thorough" else "merge %d of %d" % (seed % NSLICES, NSLICES)}


def union(alts):
    return O.OR([O.sat(a) for a in alts]) if alts else O.FALSE


def outside(alts):
    """beyond the tolerance outside every alternative"""
    return O.AND([O.broken(a) if a else O.FALSE for a in alts]) if alts else O.TRUE


def nested(alts, force):
    from pacti.contracts.polyhedral_iocontract import NestedPolyhedra

    return NestedPolyhedra([plist(a) for a in alts], force_empty_intersection=force)


def run_case(case):
    fam = case["fam"]
    out = []
    if fam == "ctor":
        ralts = [O.rts(plist(a)) for a in case["alts"]]
        share = False
        kinds = {}
        for a, b in itertools.combinations(ralts, 2):
            if O.feasible(a + b):
                share = True
                # touching = the intersection has an empty interior in the shared variables (no point strictly inside both)
                strict = O.find_point(O.AND([("le", t, -F(1, 1000)) for t in a + b]), box=None)
                kinds["touching" if strict is None else "overlapping"] = 1
            else:
                kinds["disjoint"] = 1
        try:
            nested(case["alts"], True)
            viol = {"sub": "ctor", "what": "alternatives share a behaviour but force_empty_intersection accepted them"} if share else None
            out.append(("ctor:accepted", True, None, viol, kinds))
        except ValueError:
            viol = None if share else {"sub": "ctor", "what": "pairwise disjoint alternatives rejected with ValueError"}
            out.append(("ctor:ValueError", True, None, viol, kinds))
        except Exception as e:  # noqa
            out.append(("escaped:" + type(e).__name__, False, None, {"sub": "ctor", "what": "raised %s" % type(e).__name__}))
        return out
    if fam == "member":
        from pacti.iocontract import Var

        n = nested(case["alts"], False)
        ralts = [O.rts(plist(a)) for a in case["alts"]]
        i = Var("i")
        for val in (-0.5, 0, 0.5, 1, 1.5, 2, 2.5, 3, 3.5):
            exp = any(all(O.lhs(t, {"i": F(val)}) <= t[1] for t in a) for a in ralts)
            try:
                got = n.contains_behavior({i: val})
            except Exception as e:  # noqa
                out.append(("escaped:" + type(e).__name__, False, None, {"sub": val, "what": "contains_behavior raised %s" % type(e).__name__}))
                continue
            viol = None if got is exp else {"sub": val, "what": "nested contains_behavior answered %r, some-alternative semantics says %r" % (got, exp)}
            out.append(("member:in" if got else "member:out", len(ralts) >= 2, None, viol))
        if any(a for a in case["alts"]):
            try:
                r = n.contains_behavior({Var("zz"): 1})
                out.append(("member:unassigned-answered", False, None, {"sub": "unassigned", "what": "unassigned variable did not raise ValueError (answered %r)" % r}))
            except ValueError:
                out.append(("member:ValueError", False, None, None))
        return out
    if fam == "member2":
        from pacti.iocontract import Var

        n = nested(case["alts"], False)
        ralts = [O.rts(plist(a)) for a in case["alts"]]
        i, o = Var("i"), Var("o")
        for vi in (-0.5, 0, 0.5, 1, 1.5, 2, 2.5, 3, 3.5):
            for vo in (-0.5, 0, 0.5, 1, 1.5, 2, 2.5):
                pt = {"i": F(vi), "o": F(vo)}
                exp = any(all(O.lhs(t, pt) <= t[1] for t in a) for a in ralts)
                got = n.contains_behavior({i: vi, o: vo})
                viol = None if got is exp else {"sub": [vi, vo], "what": "nested contains_behavior answered %r, some-alternative semantics says %r" % (got, exp)}
                out.append(("member:in" if got else "member:out", len(ralts) >= 2, None, viol))
        return out
    if fam == "le":
        L, R = nested(case["L"], False), nested(case["R"], False)
        rl = [O.rts(plist(a)) for a in case["L"]]
        rr = [O.rts(plist(a)) for a in case["R"]]
        try:
            got = L <= R
        except Exception as e:  # noqa
            return [("escaped:" + type(e).__name__, False, None, {"sub": "le", "what": "<= raised %s" % type(e).__name__})]
        viol = None
        if got:
            w = O.find_point(O.AND(union(rl), outside(rr)))
            if w is not None:
                viol = {"sub": "le", "what": "<= answered True but the left union is not contained in the right union", "witness": O.ptjson(w)}
        return [("le:%s" % got, len(rl) + len(rr) >= 3, None, viol)]
    if fam == "strings":
        from pacti.contracts import PolyhedralIoContractCompound
        from pacti.iocontract import Var
        from pacti.terms.polyhedra.serializer import polyhedral_termlist_from_string

        def ref_alts(alts):
            return [[O.rt(t) for s_ in alt for t in polyhedral_termlist_from_string(s_)] for alt in alts]

        ra, rg = ref_alts(case["a"]), ref_alts(case["g"])
        try:
            c = PolyhedralIoContractCompound.from_strings(case["a"], case["g"], ["i"], ["o"])
        except ValueError:
            return [("strings:ValueError", False, None, None)]
        i, o = Var("i"), Var("o")
        pts = [(vi, vo) for vi in (-1, 0, 0.5, 1, 1.5, 2, 2.5, 3, 4) for vo in (-1, 0, 1, 1.5, 2, 3, 5, 6)]

        def member(alts, pt):
            return any(all(O.lhs(t, pt) <= t[1] for t in alt) for alt in alts)

        def check(obj, tag):
            for vi, vo in pts:
                pt = {"i": F(vi), "o": F(vo)}
                beh = {i: vi, o: vo}
                for name, nested_, ref in (("assumptions", obj.a, ra), ("guarantees", obj.g, rg)):
                    got = nested_.contains_behavior(beh)
                    exp = member(ref, pt)
                    if got is not exp:
                        return {"sub": [tag, name, vi, vo], "what": "%s: the %s built from %s %s the behaviour i=%s o=%s, union semantics says %s" % (
                            tag, name, case["a"] if name == "assumptions" else case["g"], "contain" if got else "do not contain", vi, vo, exp)}
            return None

        viol = check(c, "from_strings")
        out.append(("strings:built", True, None, viol))
        if viol is None:
            # dictionary round trip and self-merge keep the unions
            try:
                d = c.to_dict()
                c2 = PolyhedralIoContractCompound.from_strings(**d)
                out.append(("strings:roundtrip", True, None, check(c2, "to_dict/from_strings round trip")))
            except Exception as e:  # noqa
                out.append(("strings:roundtrip", False, None, {"sub": "roundtrip", "what": "round trip raised %s" % type(e).__name__}))
            try:
                m = c.merge(c)
                out.append(("strings:selfmerge", True, None, check(m, "merge of a compound contract with itself")))
            except ValueError:
                out.append(("strings:selfmerge-ValueError", False, None, None))
        return out
    if fam == "mergeseq":
        for k, (g1, g2) in enumerate(case["seq"]):
            r = run_case({"fam": "merge", "a1": [interval("i", 0, 1)], "g1": [g1], "a2": [interval("i", 0, 2)], "g2": [g2]})
            for x in r:
                viol = x[3]
                if viol is not None:
                    viol = dict(viol, sub="seq#%d" % k, what="merge %d of a sequence of look-alike merges: %s" % (k, viol["what"]))
                out.append((x[0], True, None, viol) + tuple(x[4:]))
        return out
    if fam == "merge":
        from pacti.contracts import PolyhedralIoContractCompound

        def mk(a, g):
            return PolyhedralIoContractCompound(assumptions=nested(a, True), guarantees=nested(g, False), input_vars=pvars(["i"]), output_vars=pvars(["o"]))

        try:
            c1, c2 = mk(case["a1"], case["g1"]), mk(case["a2"], case["g2"])
        except ValueError:
            return [("merge:operand-rejected", False, None, None)]
        try:
            m = c1.merge(c2)
        except ValueError as e:
            return [("merge:ValueError", False, None, {"sub": "merge", "what": "merge of contracts with disjoint assumption alternatives raised ValueError: %s" % str(e)[:80]})]
        except Exception as e:  # noqa
            return [("escaped:" + type(e).__name__, False, None, {"sub": "merge", "what": "merge raised %s" % type(e).__name__})]
        viol = None
        extra = {}
        for name, mine, x1, x2 in (("assumptions", m.a, case["a1"], case["a2"]), ("guarantees", m.g, case["g1"], case["g2"])):
            rm = [O.rts(tl) for tl in mine.nested_termlist]
            r1 = [O.rts(plist(a)) for a in x1]
            r2 = [O.rts(plist(a)) for a in x2]
            npairs = sum(1 for a in r1 for b in r2)
            if len(rm) < npairs:
                extra["empty-alternative-dropped"] = 1
            if any(not O.feasible(a) for a in rm):
                viol = {"sub": name, "what": "an empty alternative was kept in the merged " + name}
                break
            w = O.find_point(O.AND(union(rm), O.OR(outside(r1), outside(r2))))
            if w is not None:
                viol = {"sub": name, "what": "merged %s admit a behaviour outside the intersection of the operands' unions" % name, "witness": O.ptjson(w)}
                break
            w = O.find_point(O.AND(union(r1), union(r2), outside(rm)))
            if w is not None:
                viol = {"sub": name, "what": "merged %s lost a behaviour of the intersection of the operands' unions" % name, "witness": O.ptjson(w)}
                break
        if viol is None and ([v.name for v in m.inputvars] != ["i"] or [v.name for v in m.outputvars] != ["o"]):
            viol = {"sub": "iface", "what": "merged interface is not the union"}
        return [("merge:returned", True, None, viol, extra)]
    raise ValueError(fam)
