"""C16 — renaming variables is faithful substitution (E1, DESIGN.md 4/C16)."""
import itertools

from .. import compsem as CS
from .. import grids
from .. import oracle as O
from ..build import contract, jcontract
from .c06 import _ref_rename

ID = "C16"
LEVEL = "exploration"
NSLICES = 8
RULE = (
    "E1 exhaustive: contracts over inputs {a,b} outputs {c,d} (and the 1-input/1-output sub-interface) with assumptions "
    "<=1 term and guarantees 1-2 terms, coefficients {-1,1,2} chosen so that renaming makes coefficients add and cancel; x "
    "every (source,target) over the four names + a fresh name + an absent source (36 pairs: target fresh / existing input / "
    "existing output / source absent / source = target); x rename-to-fresh-and-back; mapping lists of length 2-3 incl. swaps "
    "through a temporary name (quick: 1/%d slice of the mapping-list family). Oracle: reference substitution on exact "
    "rationals; renamed A <=> reference A and renamed A&G <=> reference A&G (the constructor re-simplifies), interface lists "
    "equal as duplicate-free sets to the rule in the property text (the position of the new name is not prescribed), absent source = identity, input/output clash must raise "
    "IncompatibleArgsError, ValueError only if the substituted constraints are unsatisfiable. Non-trivial = a rename "
    "that changes at least one constraint." % NSLICES
)
REQUIRED = ["returned", "IncompatibleArgsError", "merged-coefficients", "cancelled", "fresh-and-back", "mapping-list", "identity"]


def _subst_terms(terms, src, tgt):
    out = []
    for co, k in terms:
        d = dict(co)
        if src in d and src != tgt:
            d[tgt] = d.get(tgt, 0) + d.pop(src)
        out.append([{n: v for n, v in d.items() if v != 0}, k])
    return out


def ref_rename(c, src, tgt):
    """reference: returns None (must raise) or the renamed JSON contract"""
    r = _ref_rename(c["i"], c["o"], src, tgt)
    if r is None:
        return None
    if src not in c["i"] and src not in c["o"]:
        return {"i": r[0], "o": r[1], "a": c["a"], "g": c["g"]}
    return {"i": r[0], "o": r[1], "a": _subst_terms(c["a"], src, tgt), "g": _subst_terms(c["g"], src, tgt)}


def _contracts():
    ga = grids.terms(["a", "b"], [-1, 0, 1], [0, 2])
    A = [[]] + [[t] for t in ga if len(t[0]) == 2 or t[0].get("a") == 1][:5]
    gg = [[{"c": 1, "a": -1}, 0], [{"c": 1, "a": 1}, 1], [{"d": 1, "c": -1}, 0], [{"d": 2, "b": -1, "a": 1}, 1], [{"c": 1, "d": 1}, 3],
          [{"c": -1}, 0], [{"d": 1, "b": 2}, 2]]
    for a in A:
        for g in grids.lists_upto(gg, 2, minlen=1):
            yield {"i": ["a", "b"], "o": ["c", "d"], "a": a, "g": g}
    for a in ([], [[{"a": 1}, 2]]):
        for g in ([[{"c": 1, "a": -1}, 0]], [[{"c": 1, "a": 2}, 1], [{"c": -1}, 0]]):
            yield {"i": ["a"], "o": ["c"], "a": a, "g": g}
    # coefficients that almost (but not exactly) cancel when two variables are merged, and exactly cancelling ones
    for k1, k2 in ((200001, -200000), (1.00001, -1), (3, -3), (0.5, -0.5000001), (1e-8, 1)):
        yield {"i": ["a", "b"], "o": ["c", "d"], "a": [[{"a": k1, "b": k2}, 3]], "g": [[{"c": k1, "d": k2, "a": 1}, 3], [{"c": -1}, 0]]}


NAMES = ["a", "b", "c", "d", "fresh", "absent"]


def _contracts_deep():
    ga = grids.terms(["a", "b"], [-1, 0, 1, 2], [0, 2])
    A = [[]] + [[t] for t in ga] + [list(c) for c in itertools.combinations(ga[:8], 2)]
    gg = [t for t in grids.terms(["a", "b", "c", "d"], [-1, 0, 1], [0, 1]) if ("c" in t[0] or "d" in t[0]) and len(t[0]) <= 3]
    for a in A:
        for g in grids.lists_upto(gg[::3], 2, minlen=1):
            yield {"i": ["a", "b"], "o": ["c", "d"], "a": a, "g": g}


def cases(tier, seed):
    return grids.dedupe(_cases(tier, seed)) if tier == "thorough" else _cases(tier, seed)


def _cases(tier, seed):
    sl = seed % NSLICES
    k = 0
    if tier == "thorough":
        for j, c in enumerate(_contracts_deep()):
            if j % 7 == seed % 7:
                yield {"fam": "single", "c": c}
        names = ["a", "b", "c", "d", "t"]
        pairs = [(s_, t_) for s_ in names for t_ in names if s_ != t_]
        for c in list(_contracts())[::6]:
            for m1, m2 in itertools.product(pairs, repeat=2):
                yield {"fam": "maps", "c": c, "maps": [list(m1), list(m2)]}
    for c in _contracts():
        yield {"fam": "single", "c": c}
    maps = [[("a", "t"), ("b", "a"), ("t", "b")], [("c", "t"), ("d", "c"), ("t", "d")], [("a", "x"), ("c", "y")], [("a", "b"), ("b", "e")],
            [("c", "d"), ("d", "c")], [("a", "c"), ("b", "z")], [("x", "y"), ("a", "x")], [("b", "b"), ("d", "q"), ("q", "d")],
            [("a", "q"), ("q", "a")], [("a", "b"), ("c", "d")],
            [("a", "p"), ("a", "q")], [("a", "t"), ("b", "a"), ("t", "b"), ("a", "t"), ("b", "a"), ("t", "b")], [("c", "t"), ("d", "c"), ("t", "d"), ("c", "t")],
            [("a", "p"), ("p", "a"), ("a", "q")]]
    for c in _contracts():
        for m in maps:
            k += 1
            if tier == "thorough" or k % NSLICES == sl:
                yield {"fam": "maps", "c": c, "maps": [list(x) for x in m]}


def describe(tier, seed):
    return {"slice": None if tier == "thorough" else "maps %d of %d" % (seed % NSLICES, NSLICES)}


def _compare(res, ref, sub):
    got_i, got_o = [v.name for v in res.inputvars], [v.name for v in res.outputvars]
    if set(got_i) != set(ref["i"]) or set(got_o) != set(ref["o"]) or len(set(got_i)) != len(got_i) or len(set(got_o)) != len(got_o):
        return {"sub": sub, "what": "interface %s/%s, prescribed %s/%s" % (got_i, got_o, ref["i"], ref["o"])}
    from ..build import plist

    ra, rg = O.rts(plist(ref["a"])), O.rts(plist(ref["g"]))
    a, g = O.rts(res.a), O.rts(res.g)
    e = CS.equiv(a, ra)
    if e is not None:
        return {"sub": sub, "what": "renamed assumptions differ from the substituted ones (%s)" % e[0], "result": jcontract(res), "witness": O.ptjson(e[1])}
    e = CS.equiv(a + g, ra + rg)
    if e is not None:
        return {"sub": sub, "what": "renamed A&G differs from the substituted A&G (%s)" % e[0], "result": jcontract(res), "witness": O.ptjson(e[1])}
    return None


def _apply(c, jc, src, tgt, sub):
    """returns (outcome, result contract or None, result json ref or None, violation)"""
    from pacti.iocontract import Var
    from pacti.utils.errors import IncompatibleArgsError
    from ..build import plist

    ref = ref_rename(jc, src, tgt)
    try:
        r = c.rename_variable(Var(src), Var(tgt))
    except IncompatibleArgsError:
        # C16 says a rename YIELDS the substituted contract and raises only for an input/output clash
        return "IncompatibleArgsError", None, None, None if ref is None else {"sub": sub, "what": "rename raised IncompatibleArgsError although no variable becomes both input and output"}
    except ValueError:
        feas = ref is not None and O.feasible(O.rts(plist(ref["a"])) + O.rts(plist(ref["g"])))
        return "ValueError", None, None, {"sub": sub, "what": "ValueError although the substituted constraints are satisfiable"} if feas else None
    except Exception as e:  # noqa
        return "escaped:" + type(e).__name__, None, None, {"sub": sub, "what": "rename raised %s" % type(e).__name__}
    if ref is None:
        return "returned", r, None, {"sub": sub, "what": "a rename making a variable both input and output did not raise"}
    return "returned", r, ref, _compare(r, ref, sub)


def run_case(case):
    jc = case["c"]
    c = contract(jc)
    jc = jcontract(c)  # the constructor may already have simplified the guarantees
    out = []
    if case["fam"] == "single":
        for src in NAMES:
            for tgt in NAMES[:5]:
                sub = {"src": src, "tgt": tgt}
                oc, r, ref, viol = _apply(c, jc, src, tgt, sub)
                extra = {}
                changed = False
                if ref is not None:
                    if src == tgt or src == "absent" or (src not in jc["i"] + jc["o"]):
                        extra["identity"] = 1
                    both = [t for t in jc["a"] + jc["g"] if src in t[0] and tgt in t[0]]
                    if both and src != tgt:
                        extra["merged-coefficients"] = 1
                        if any(t[0][src] + t[0][tgt] == 0 for t in both):
                            extra["cancelled"] = 1
                    changed = any(src in t[0] for t in jc["a"] + jc["g"]) and src != tgt
                out.append((oc, changed, None if r is None else str(r), viol, extra))
                if r is not None and ref is not None and tgt == "fresh" and src in jc["i"] + jc["o"]:
                    oc2, r2, ref2, v2 = _apply(r, ref, "fresh", src, {"src": src, "tgt": "fresh", "back": True})
                    if v2 is None and r2 is not None:
                        v2 = _compare(r2, jc, {"src": src, "tgt": "fresh", "back": True})
                    out.append((oc2, True, None, v2, {"fresh-and-back": 1}))
        return out
    # mapping lists applied in order
    ref = jc
    for s, t in case["maps"]:
        if ref is not None:
            ref = ref_rename(ref, s, t)
    sub = {"maps": case["maps"]}
    from pacti.utils.errors import IncompatibleArgsError

    try:
        r = c.rename_variables([tuple(m) for m in case["maps"]])
    except IncompatibleArgsError:
        return [("IncompatibleArgsError", False, None, None if ref is None else {"sub": sub, "what": "mapping list raised IncompatibleArgsError although every step is admissible"})]
    except ValueError:
        return [("ValueError", False, None, None)]
    except Exception as e:  # noqa
        return [("escaped:" + type(e).__name__, False, None, {"sub": sub, "what": "rename_variables raised %s" % type(e).__name__})]
    if ref is None:
        return [("returned", False, None, {"sub": sub, "what": "a mapping list with an input/output clash did not raise"})]
    return [("returned", True, str(r), _compare(r, ref, sub), {"mapping-list": 1})]
