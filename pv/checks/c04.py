"""C04 — variable elimination is implication-preserving for every tactic order (E1, DESIGN.md 4/C04)."""
import itertools

from .. import grids
from .. import oracle as O
from ..build import plist, pvars, sig_list, jlist

ID = "C04"
LEVEL = "exploration"
ALLV = ["x", "y", "z", "w"]
SINGLE = [[1], [2], [3], [4], [5]]
DEFAULT = [1, 2, 3, 4, 5]
REV = [5, 4, 3, 2, 1]
NSLICES = 48

RULE = (
    "E1 exhaustive grid. A case is (S, Gamma, elim): S a list of 1-2 terms over x(kept),y,z[,w]; Gamma a list of "
    "0-3 context terms each mentioning an eliminable variable; elim a non-empty list of eliminable variables meeting "
    "S. Every case is executed under every configuration: refine and relax x {simplify=False with tactics_order "
    "[1],[2],[3],[4],[5],[1..5],[5..1]; simplify=True with [1..5],[5..1]} (+ all 120 permutations and order [] on the "
    "permutation sub-grid). Oracle: refine => no box point with Gamma & R & not S; relax => no box point with "
    "Gamma & S & not R and vars(R) disjoint from elim; any exception other than ValueError is a violation. "
    "quick = complete core (Gamma <= 1 term), the complete kayk family (two eliminated variables coupled by two context rows "
    "with coefficients in {-2,-1,1,2}), kayk3 (three eliminated variables, three rows with diagonal 1 or 2 and 0/1 off-diagonal loads), frac "
    "(coefficients +-0.5 and +-1, pivots below 1) and the permutation family + one complete 1/%d slice (VERIF_SEED mod %d) of the thorough space; "
    "thorough = whole space. Non-trivial = the returned statistics attribute a tactic > 0 to some term "
    "(a term was actually transformed); distinctness by construction of the duplicate-free enumeration."
    % (NSLICES, NSLICES)
)
ASSUMPTIONS = ["tolerances as in the property text: conclusion broken by > 1e-4*(1+|c|) inside |v|<=1000"]
REQUIRED = ["ref:returned", "rel:returned", "ValueError",
            "tactic1:ref", "tactic2:ref", "tactic3:ref", "tactic4:ref", "tactic5:ref",
            "tactic1:rel", "tactic2:rel", "tactic3:rel", "tactic5:rel"]


def _families(tier):
    """yield (family name, S lists, Gamma lists, elim options)"""
    V3 = ["x", "y", "z"]
    # S terms: mention y or z
    s_terms = [t for t in grids.terms(V3, [-1, 0, 1, 2], [1]) if grids.tvars(t) & {"y", "z"}]
    g_terms = [t for t in grids.terms(V3, [-1, 0, 1], [0, 1]) if grids.tvars(t) & {"y", "z"}]
    p_s = [[{"y": 1}, 1], [{"x": 1, "y": 1}, 1], [{"x": 1, "y": -1}, 1], [{"y": 2, "z": 1}, 1], [{"x": 1, "y": 1, "z": -1}, 1]]
    yield ("perm", [[t] for t in p_s], list(grids.lists_upto(g_terms[:16], 1)) + [g_terms[i:i + 2] for i in range(0, 16, 2)],
           [["y"], ["y", "z"]])
    # Kaykobad / multiplier-sign shapes: two eliminated variables coupled by context rows with coefficients up to 2
    k_s = [[{"x": cx, "y": cy, "z": cz}, 1] for cx in (0, 1) for cy in (-1, 1) for cz in (-1, 1)]
    k_s = [[{n: v for n, v in t[0].items() if v}, t[1]] for t in k_s]
    k_g = [t for t in grids.terms(["y", "z"], [-2, -1, 1, 2], [0])]
    yield ("kayk", [[t] for t in k_s], list(grids.lists_upto(k_g, 2, minlen=2)), [["y", "z"]])
    # three eliminated variables in one term, three context rows with diagonal 1 or 2 and off-diagonal loads 0/1
    k3_s = [[{"x": cx, "y": a, "z": b, "w": c}, 5] for cx in (0, 1) for (a, b, c) in ((1, 1, 1), (2, 3, 2), (1, 2, 1))]
    k3_s = [[{n: v for n, v in t[0].items() if v}, t[1]] for t in k3_s]
    k3_g = []
    for dg in (1, 2):
        for off in itertools.product((0, 1), repeat=6):
            rows = [{"y": dg, "z": off[0], "w": off[1]}, {"y": off[2], "z": dg, "w": off[3]}, {"y": off[4], "z": off[5], "w": dg}]
            k3_g.append([[{n: v for n, v in r.items() if v}, 1] for r in rows])
    yield ("kayk3", [[t] for t in k3_s], k3_g, [["y", "z", "w"]])
    # non-integer coefficients (pivots of magnitude below 1)
    f_s = [[{"x": cx, "y": a, "z": b}, 1] for cx in (0, 1) for a in (0.5, 1, 2) for b in (0.5, 1, 2)]
    f_s = [[{n: v for n, v in t[0].items() if v}, t[1]] for t in f_s]
    f_g = [t for t in grids.terms(["y", "z"], [-1, -0.5, 0.5, 1], [1])]
    yield ("frac", [[t] for t in f_s], list(grids.lists_upto(f_g, 2, minlen=2)), [["y", "z"]])
    # two-step chains: the eliminated variable is bounded only through a second eliminated variable (tactic 4 recursion)
    c2_s = [[{"x": 1, "y": cy}, 1] for cy in (-1, 1, 2, -2)]
    c2_g = [[[{"y": a, "z": b}, c1], [{"z": d}, c2]] for a in (-2, -1, 1, 2) for b in (-2, -1, 1, 2) for d in (-1, 1) for c1 in (0, 2) for c2 in (0, 2)]
    yield ("chain2", [[t] for t in c2_s], c2_g + [list(reversed(g)) for g in c2_g[::3]], [["y", "z"]])
    yield ("core", [[t] for t in s_terms], list(grids.lists_upto(g_terms, 1)), [["y"], ["y", "z"]])
    yield ("g2", [[t] for t in s_terms], list(grids.lists_upto(g_terms, 2, minlen=2)), [["y"], ["y", "z"]])
    # other constants, other eliminated sets
    s_terms_b = [t for t in grids.terms(V3, [-1, 0, 1, 2], [-1, 0, 2]) if grids.tvars(t) & {"y", "z"}]
    g_terms_b = [t for t in grids.terms(V3, [-1, 0, 1], [-1, 2]) if grids.tvars(t) & {"y", "z"}]
    yield ("consts", [[t] for t in s_terms_b], list(grids.lists_upto(g_terms + g_terms_b, 1)), [["y"], ["z"], ["z", "y"]])
    # two-term S (helpers are the other, possibly already transformed, terms of S)
    s2 = [t for t in grids.terms(V3, [-1, 0, 1], [0, 1]) if grids.tvars(t) & {"y", "z"}]
    yield ("s2", list(grids.lists_upto(s2, 2, ordered=True, minlen=2)), list(grids.lists_upto(g_terms[:24], 1)),
           [["y"], ["y", "z"]])
    # chains / three eliminable variables (tactic 4 recursion, tactic 1/3/5 with n=2..3)
    V4 = ["x", "y", "z", "w"]
    s4 = [t for t in grids.terms(V4, [-1, 0, 1], [1]) if "y" in t[0] and len(t[0]) <= 3]
    g4 = [t for t in grids.terms(["y", "z", "w", "x"], [-1, 0, 1], [1]) if len(t[0]) == 2 and (grids.tvars(t) & {"y", "z", "w"})]
    yield ("chain", [[t] for t in s4], list(grids.lists_upto(g4, 3, minlen=2)), [["y", "z"], ["y", "z", "w"]])


def _cases_all():
    for fam, Ss, Gs, elims in _families("thorough"):
        for S in Ss:
            sv = grids.lvars(S)
            for G in Gs:
                for e in elims:
                    if not (set(e) & sv):
                        continue
                    yield {"fam": fam, "S": S, "G": G, "elim": e}


def cases(tier, seed):
    sl = seed % NSLICES
    k = 0
    for c in _cases_all():
        if tier == "thorough" or c["fam"] in ("core", "perm", "kayk", "kayk3", "frac", "chain2"):
            yield c
        else:
            k += 1
            if k % NSLICES == sl:
                yield c


def describe(tier, seed):
    return {"slice": None if tier == "thorough" else "%d of %d" % (seed % NSLICES, NSLICES),
            "alphabet": "S coef {-1,0,1,2}, Gamma coef {-1,0,1}, constants {-1,0,1,2}; variables x(kept) y z w"}


def _configs(case):
    perm = case["fam"] == "perm"
    for refine in (True, False):
        for order in SINGLE + [DEFAULT, REV]:
            if not refine and order == [4] and not perm:
                continue  # tactic 4 declines every relaxation at once; exercised on the perm family
            yield refine, False, order
        yield refine, True, DEFAULT
        yield refine, True, REV
        if perm:
            for p in itertools.permutations(DEFAULT):
                p = list(p)
                if p != DEFAULT and p != REV:
                    yield refine, False, p
            yield refine, False, []
            yield refine, False, None


def run_case(case):
    S = plist(case["S"])
    G = plist(case["G"])
    elim = pvars(case["elim"])
    rS, rG = O.rts(S), O.rts(G)
    names = O.names_of(rS, rG)
    s_sig = sig_list(S)
    out = []
    for refine, simplify, order in _configs(case):
        sub = {"refine": refine, "simplify": simplify, "order": order}
        tag = "ref" if refine else "rel"
        try:
            if refine:
                R, stats = S.elim_vars_by_refining(G, list(elim), simplify=simplify,
                                                   tactics_order=None if order is None else list(order))
            else:
                R, stats = S.elim_vars_by_relaxing(G, list(elim), simplify=simplify,
                                                   tactics_order=None if order is None else list(order))
        except ValueError:
            out.append(("ValueError", False, None, None))
            continue
        except Exception as e:  # noqa
            out.append(("escaped:" + type(e).__name__, False, None,
                        {"sub": sub, "what": "exception other than ValueError escaped: %s: %s" % (type(e).__name__, str(e)[:200])}))
            continue
        used = sorted({s[0] for s in stats if s[0] > 0})
        extra = {"tactic%d:%s" % (u, tag): 1 for u in used}
        r_sig = sig_list(R)
        viol = None
        rR = O.rts(R)
        if refine:
            if r_sig != s_sig:
                w = O.implied(O.AND(O.sat(rG), O.sat(rR)), rS, names)
                if w is not None:
                    viol = {"sub": sub, "what": "refined result with context does not imply the original",
                            "result": jlist(R), "tactics": used, "witness": O.ptjson(w)}
        else:
            left = sorted({v.name for v in R.vars} & set(case["elim"]))
            if left:
                viol = {"sub": sub, "what": "relaxed result mentions eliminated variables %s" % left, "result": jlist(R)}
            elif r_sig != s_sig:
                w = O.implied(O.AND(O.sat(rG), O.sat(rS)), rR, names)
                if w is not None:
                    viol = {"sub": sub, "what": "relaxed result is not implied by the original with context",
                            "result": jlist(R), "tactics": used, "witness": O.ptjson(w)}
        out.append((tag + ":returned", bool(used), (tag, simplify, tuple(order or (0,)), r_sig), viol, extra))
    return out
