"""C07 — simplification never changes meaning and leaves nothing redundant (E1, DESIGN.md 4/C07)."""
from .. import grids
from .. import oracle as O
from ..build import plist, pvars, sig_list, jlist, contract

ID = "C07"
LEVEL = "exploration"
NSLICES = 16
RULE = (
    "E1 exhaustive grid of (L, Gamma): base: L in L<=2 over T({x,y},{-1,0,1,2},{0,1,2}) x Gamma in L<=1 over "
    "T({x,y},{-1,0,1},{0,1}) (+ no-context call); planted: every base list extended with a duplicate / a 2x or 1/2x "
    "scaling / the sum of two terms / a copy loosened or tightened by one grid step or by 1e-4, 1e-3, 1e-2 (just beyond the tolerance), in both positions; l3: 3-term lists "
    "(one 1/%d slice in quick, complete in thorough); v3: 3 variables (thorough); contract: constructor and "
    "simplify() of contracts over one interface. Oracle per execution: result terms are a sub-multiset of L "
    "(coefficients identical, constants within 1e-9 relative); no box point satisfies Gamma and R and breaks a dropped "
    "term by > tol; no remaining term is implied by the others and Gamma with margin > tol; ValueError only if L and "
    "Gamma are exactly infeasible. Non-trivial = a feasible system in which at least one term was dropped or a "
    "context was present." % NSLICES
)
REQUIRED = ["returned", "ValueError", "dropped", "kept-all", "ctx-used"]

V2 = ["x", "y"]


def _scale(t, k):
    return [{n: c * k for n, c in t[0].items()}, t[1] * k]


def _add(t, u):
    d = dict(t[0])
    for n, c in u[0].items():
        d[n] = d.get(n, 0) + c
    return [{n: c for n, c in d.items() if c != 0}, t[1] + u[1]]


def _all():
    T = grids.terms(V2, [-1, 0, 1, 2], [0, 1, 2])
    TG = grids.terms(V2, [-1, 0, 1], [0, 1])
    G1 = list(grids.lists_upto(TG, 1))
    L2 = list(grids.lists_upto(T, 2))
    for L in L2:
        for G in G1:
            yield {"fam": "base", "L": L, "G": G}
        yield {"fam": "base", "L": L, "G": None}
    # planted redundancy on every non-empty base list
    Tp = grids.terms(V2, [-1, 0, 1, 2], [0, 1])
    for L in grids.lists_upto(Tp, 2, minlen=1):
        plants = []
        for t in L:
            plants += [t, _scale(t, 2), _scale(t, 0.5), [t[0], t[1] + 1], [t[0], t[1] - 1], [t[0], t[1] + 0.0001], [t[0], t[1] + 0.001],
                       [t[0], t[1] - 0.001], [t[0], t[1] - 0.01], [t[0], t[1] + 0.01]]
        if len(L) == 2:
            s = _add(L[0], L[1])
            if s[0]:
                plants += [s, [s[0], s[1] + 1], _add(_scale(L[0], 2), L[1])]
        for p in plants:
            for pos in (0, len(L)):
                LL = L[:pos] + [p] + L[pos:]
                yield {"fam": "planted", "L": LL, "G": []}
                yield {"fam": "planted", "L": LL, "G": [[{"x": 1}, 1]]}
            # the planted term implied only via the context
            yield {"fam": "planted", "L": [p], "G": L}
    # terms that are nearly (but not) equal to a context term or to each other: must not be treated as duplicates
    panel = [[{"x": 1, "y": -1}, 0], [{"x": 2, "y": 1}, 1], [{"x": -1, "y": 2.5}, 3], [{"x": 1}, 2]]
    for t in panel:
        for n in list(t[0]):
            for f in (1.000008, 0.999992, 1.0001):
                tp = [{**t[0], n: t[0][n] * f}, t[1]]
                yield {"fam": "planted", "L": [tp], "G": [t]}
                yield {"fam": "planted", "L": [tp, [{"y": 1}, 5]], "G": [t]}
                yield {"fam": "planted", "L": [t, tp], "G": []}
    # terms with tiny but non-zero coefficients are constraints in their own right and must come back unchanged
    for eps in (5e-7, -5e-7, 1e-5, 2e-9):
        for t in ([{"x": eps, "y": 1}, 1], [{"x": 1, "y": eps}, 2], [{"x": eps, "y": -1}, 0]):
            yield {"fam": "planted", "L": [t, [{"y": 1}, 5]], "G": []}
            yield {"fam": "planted", "L": [t, [{"x": 1}, 7]], "G": [[{"y": -1}, 3]]}
            yield {"fam": "planted", "L": [t], "G": [[{"x": 1}, 900]]}
    # sequences of look-alike systems (equal to 4 significant digits) simplified one after the other in one process
    for a, b in ((2.5, 2.5004), (1000, 1000.04), (0.12341, 0.12344)):
        yield {"fam": "seq", "seq": [{"L": [[{"x": 1}, a], [{"x": 1}, a + 1]], "G": []}, {"L": [[{"x": 1}, b], [{"x": 1}, b + 1]], "G": []}]}
        yield {"fam": "seq", "seq": [{"L": [[{"x": 1, "y": 1}, b]], "G": [[{"y": -1}, 0]]}, {"L": [[{"x": 1, "y": 1}, a]], "G": [[{"y": -1}, 0]]}]}
    # a relaxation that drops terms, followed by simplify / constructor on an equal list (results must not be shared)
    for L in ([[{"x": 1, "y": 1}, 1], [{"x": 1}, 5], [{"x": -1}, 0]], [[{"x": 1, "y": -2}, 0], [{"x": 1}, 2], [{"y": 1}, 3]]):
        yield {"fam": "relaxseq", "L": L}
    # contract level
    a_terms = grids.terms(["i"], [-1, 1], [0, 1, 2])
    g_terms = [t for t in grids.terms(["i", "o"], [-1, 0, 1], [0, 1, 2])]
    for a in grids.lists_upto(a_terms, 1):
        for g in grids.lists_upto(g_terms, 2):
            if "o" in grids.lvars(g):
                yield {"fam": "contract", "a": a, "g": g}
    # constructor: guarantees redundant only through assumptions that bound an input the guarantees do not mention
    for k in (20, 9, 7):
        yield {"fam": "contract2", "a": [[{"x": 1, "y": -1.5}, 0], [{"y": 1}, 2], [{"x": -1}, 10]], "g": [[{"o": 1, "x": -2}, 1], [{"o": 1, "x": 0.5}, k], [{"o": -1}, 4]]}
        yield {"fam": "contract2", "a": [[{"x": 1, "y": -1}, 0], [{"y": 1}, 3]], "g": [[{"o": 1, "x": -1}, 0], [{"o": 1}, k]]}
    for L in grids.lists_upto(T, 3, minlen=3):
        for G in ([], [[{"x": 1, "y": 1}, 1]], [[{"y": -1}, 0]]):
            yield {"fam": "l3", "L": L, "G": G}
    T3 = grids.terms(["x", "y", "z"], [-1, 0, 1], [0, 1])
    for L in grids.lists_upto(T3, 2, minlen=2):
        for G in ([], [[{"z": 1}, 1]], [[{"x": 1, "z": -1}, 0]]):
            yield {"fam": "v3", "L": L, "G": G}


QUICK = ("base", "planted", "contract", "contract2", "seq", "relaxseq")


def cases(tier, seed):
    sl = seed % NSLICES
    k = 0
    for c in grids.dedupe(_all()):
        if tier == "thorough" or c["fam"] in QUICK:
            yield c
        elif c["fam"] == "l3":
            k += 1
            if k % NSLICES == sl:
                yield c


def describe(tier, seed):
    return {"slice": None if tier == "thorough" else "%d of %d" % (seed % NSLICES, NSLICES)}


def _submultiset(res, orig):
    """match every result term to a distinct original term; returns (ok, dropped original terms)"""
    pool = list(orig)
    for r in res:
        hit = None
        for i, o in enumerate(pool):
            if r[0] == o[0] and abs(r[1] - o[1]) <= O.F(1, 10**9) * (1 + abs(o[1])):
                hit = i
                break
        if hit is None:
            return False, None
        pool.pop(hit)
    return True, pool


def judge(L, G, R, sub):
    """L, G, R rational term lists; returns (violation|None, dropped count)"""
    ok, dropped = _submultiset(R, L)
    if not ok:
        return {"sub": sub, "what": "result is not a selection of the original constraints"}, 0
    if dropped:
        w = O.implied(O.AND(O.sat(G), O.sat(R)), dropped)
        if w is not None:
            return {"sub": sub, "what": "a dropped constraint is not implied by the result in the context", "witness": O.ptjson(w)}, len(dropped)
    if O.feasible(G + R):
        for i, r in enumerate(R):
            rest = R[:i] + R[i + 1:]
            # droppable with margin: no point of rest & Gamma has lhs_r > c_r - tol
            if O.find_point(O.AND(O.sat(G), O.sat(rest), ("gt", r, -O.tol_of(r))), box=None) is None:
                return {"sub": sub, "what": "remaining constraint #%d is implied by the others with margin" % i}, len(dropped)
    return None, len(dropped)


def run_case(case):
    if case["fam"] == "contract":
        return _run_contract(case)
    if case["fam"] == "contract2":
        return _run_contract(case, ins=["x", "y"])
    if case["fam"] == "relaxseq":
        L = plist(case["L"])
        try:
            L.elim_vars_by_relaxing(plist([]), pvars(["y"]), simplify=True)
        except ValueError:
            pass
        r = run_case({"fam": "planted", "L": case["L"], "G": []})[0]
        viol = r[3]
        if viol is not None:
            viol = dict(viol, sub="relaxseq", what="simplify after a relaxation of an equal list: " + viol["what"])
        return [(r[0], True, r[2], viol) + tuple(r[4:])]
    if case["fam"] == "seq":
        out = []
        for k, c in enumerate(case["seq"]):
            r = run_case({"fam": "planted", "L": c["L"], "G": c["G"]})[0]
            viol = r[3]
            if viol is not None:
                viol = dict(viol, sub="seq#%d" % k, what="system %d of a sequence of look-alike systems: %s" % (k, viol["what"]))
            out.append((r[0], True, r[2], viol) + tuple(r[4:]))
        return out
    L = plist(case["L"])
    G = plist(case["G"]) if case["G"] is not None else None
    rL = O.rts(L)
    rG = O.rts(G) if G is not None else []
    feas = O.feasible(rL + rG)
    try:
        R = L.simplify(G) if G is not None else L.simplify()
    except ValueError:
        viol = None
        if feas:
            viol = {"sub": "simplify", "what": "ValueError raised for a feasible system"}
        return [("ValueError", False, None, viol)]
    except Exception as e:  # noqa
        return [("escaped:" + type(e).__name__, False, None, {"sub": "simplify", "what": "raised %s: %s" % (type(e).__name__, e)})]
    viol, nd = judge(rL, rG, O.rts(R), "simplify")
    extra = {"dropped" if nd else "kept-all": 1}
    if rG:
        extra["ctx-used"] = 1
    if sig_list(L) != tuple((tuple(sorted(t[0].items())), float(t[1])) for t in case["L"]):
        viol = viol or {"sub": "simplify", "what": "operand modified"}
    return [("returned", feas and (nd > 0 or bool(rG)), sig_list(R), viol, extra)]


def _run_contract(case, ins=("i",)):
    from pacti.contracts import PolyhedralIoContract

    ins = list(ins)

    a, g = plist(case["a"]), plist(case["g"])
    ra, rg = O.rts(a), O.rts(g)
    feas = O.feasible(ra + rg)
    out = []
    try:
        c = PolyhedralIoContract(a, g, pvars(ins), pvars(["o"]))
    except ValueError:
        return [("ValueError", False, None, {"sub": "ctor", "what": "constructor raised ValueError for feasible A and G"} if feas else None)]
    viol, nd = judge(rg, ra, O.rts(c.g), "ctor")
    if viol is None and O.rts(c.a) != ra:
        viol = {"sub": "ctor", "what": "assumptions changed by the constructor"}
    out.append(("returned", feas and nd > 0, ("c", sig_list(c.g)), viol, {"dropped" if nd else "kept-all": 1, "ctx-used": 1}))
    c2 = PolyhedralIoContract(a, g, pvars(ins), pvars(["o"]), simplify=False)
    try:
        c2.simplify()
        viol, nd = judge(rg, ra, O.rts(c2.g), "simplify()")
        out.append(("returned", feas and nd > 0, ("s", sig_list(c2.g)), viol, {"dropped" if nd else "kept-all": 1}))
    except ValueError:
        out.append(("ValueError", False, None, {"sub": "simplify()", "what": "simplify() raised ValueError for feasible A and G"} if feas else None))
    return out
