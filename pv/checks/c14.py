"""C14 — failures are reported only through the documented exceptions (E1 + fault enumeration, DESIGN.md 4/C14)."""
import copy
import importlib
import json
import os
import shutil
import tempfile

from .. import grids
from ..build import plist, pvars, contract, jcontract

ID = "C14"
LEVEL = "fault_enumeration"
RULE = (
    "(a) adversarial grid through every public operation: empty constraint lists, single-variable constraints, variable-free "
    "terms, contexts that leave an LP unbounded or degenerate, more eliminated variables than usable context rows, cancelling "
    "coefficients, infeasible operands - each under tactics_order in {[1],[2],[3],[4],[5],default,reversed,[]} and both simplify "
    "flags; every exception is classified against the documented set of its operation, after an exception the operands must be "
    "unchanged and a follow-up call must behave as before; (b) the case generators of C01 C02 C04 C07 C12 C16 C17 C18 re-run in "
    "classify-only mode on a complete 1/k slice (any escaping undocumented exception is a violation here); (c) fault "
    "enumeration: EVERY single-field fault of valid contract dictionaries in both representations - each JSON path x "
    "{delete, null, bool, int, float, string, list, dict} - fed to validate_contract_dict, to from_dict and, through a scratch "
    "file, to read_contracts_from_file, plus top-level file faults (not a list, entry not a dict, missing/unknown type, missing "
    "name/data). An independent three-valued reference validator classifies each faulted dictionary: still valid => must load "
    "with the reference meaning; invalid => must be rejected with ContractFormatError/ValueError (syntax errors included for the "
    "string form) and never loaded; unspecified (booleans, numeric strings where a number is expected) => either. "
    "Non-trivial = a call that raised a documented exception or a fault that had to be rejected."
)
REQUIRED = ["adv:returned", "adv:ValueError", "adv:IncompatibleArgsError", "fault:rejected", "fault:loaded", "fault:unspecified", "reuse:classified",
            "file-fault:rejected"]

TAC = [[1], [2], [3], [4], [5], None, [5, 4, 3, 2, 1], []]


# ------------------------------------------------------------------ (a) adversarial grid
def adv_lists():
    L = {
        "empty": [],
        "one": [[{"x": 1}, 1]],
        "free-true": [[{}, 1]],
        "free-false": [[{}, -1]],
        "free+x": [[{}, 2], [{"x": 1}, 1]],
        "cancel": [[{"x": 1, "y": -1}, 0], [{"x": -1, "y": 1}, 0]],
        "infeasible": [[{"x": 1}, 0], [{"x": -1}, -1]],
        "unbounded-ctx": [[{"y": 1, "z": -1}, 0]],
        "degenerate": [[{"y": 1}, 0], [{"y": 1, "z": 1}, 0], [{"z": 1}, 0], [{"y": 1, "z": -1}, 0]],
        "xyz": [[{"x": 1, "y": 1, "z": 1}, 1]],
        "xy-neg": [[{"x": -1, "y": -2}, -1]],
        "dup": [[{"y": 1}, 1], [{"y": 1}, 1]],
    }
    return L


def adv_contracts():
    return {
        "empty": {"i": ["i"], "o": ["o"], "a": [], "g": []},
        "noiface": {"i": [], "o": [], "a": [], "g": []},
        "prod": {"i": ["i"], "o": ["o"], "a": [[{"i": 1}, 2]], "g": [[{"o": 1, "i": -1}, 0]]},
        "cons": {"i": ["o"], "o": ["p"], "a": [[{"o": 1}, 1]], "g": [[{"p": 1, "o": -2}, 0]]},
        "cons-unb": {"i": ["o"], "o": ["p"], "a": [[{"o": -1}, 0]], "g": [[{"p": 1}, 1]]},
        "fb": {"i": ["p", "i"], "o": ["o"], "a": [[{"i": 1}, 1]], "g": [[{"o": 1, "p": -1, "i": -1}, 0]]},
        "fb2": {"i": ["o"], "o": ["p"], "a": [], "g": [[{"p": 1, "o": -1}, 1], [{"p": -1, "o": 1}, 1]]},
        "infeas-g": {"i": ["i"], "o": ["o"], "a": [], "g": [[{"o": 1}, 0], [{"o": -1}, -1]]},
        "same-out": {"i": ["j"], "o": ["o"], "a": [], "g": [[{"o": 1}, 1]]},
        "two-int": {"i": ["i"], "o": ["o", "q"], "a": [], "g": [[{"o": 1, "q": 1, "i": -1}, 0]]},
        "two-int-c": {"i": ["o", "q"], "o": ["p"], "a": [[{"o": 1, "q": -1}, 0]], "g": [[{"p": 1, "o": -1, "q": -1}, 0]]},
    }


def cases(tier, seed):
    L = adv_lists()
    for s in L:
        for g in L:
            yield {"fam": "adv-elim", "S": s, "G": g}
    for s in L:
        yield {"fam": "adv-list", "S": s}
    C = adv_contracts()
    for a in C:
        for b in C:
            yield {"fam": "adv-contract", "c1": a, "c2": b}
    # (b) reuse of the other checks' generators, classify only
    stride = 7 if tier == "thorough" else 61
    for pid in ("c01", "c02", "c04", "c07", "c12", "c16", "c17", "c18"):
        yield {"fam": "reuse", "pid": pid, "stride": stride, "offset": seed % stride}
    # (c) fault enumeration
    for rep in ("machine", "string"):
        for k, base in enumerate(base_dicts(rep)):
            for path in paths(base):
                for kind in KINDS:
                    yield {"fam": "fault", "rep": rep, "base": k, "path": path, "kind": kind}
    for k in range(len(FILE_FAULTS)):
        yield {"fam": "file-fault", "k": k}


# ------------------------------------------------------------------ (c) dictionaries, faults, reference validator
KINDS = ["delete", "null", "bool", "int", "float", "string", "numstring", "list", "dict"]
KVAL = {"null": None, "bool": True, "int": 3, "float": 2.5, "string": "s", "numstring": "7", "list": [], "dict": {}}


def base_dicts(rep):
    if rep == "machine":
        return [
            {"input_vars": ["i", "j"], "output_vars": ["o"],
             "assumptions": [{"constant": 2.0, "coefficients": {"i": 1.0}}],
             "guarantees": [{"constant": 0.0, "coefficients": {"o": 1.0, "i": -1.0}}, {"constant": 5.0, "coefficients": {"o": 1.0, "j": 2.0}}]},
            {"input_vars": ["i"], "output_vars": ["o"], "assumptions": [], "guarantees": [{"constant": 1, "coefficients": {"o": 2}}]},
        ]
    return [
        {"input_vars": ["i", "j"], "output_vars": ["o"], "assumptions": ["i <= 2"], "guarantees": ["o - i <= 0", "o + 2j <= 5"]},
        {"input_vars": ["i"], "output_vars": ["o"], "assumptions": [], "guarantees": ["|o| <= 3"]},
    ]


def paths(d, prefix=()):
    out = []
    if isinstance(d, dict):
        for k, v in d.items():
            out.append(list(prefix + (k,)))
            out += paths(v, prefix + (k,))
    elif isinstance(d, list):
        for k, v in enumerate(d):
            out.append(list(prefix + (k,)))
            out += paths(v, prefix + (k,))
    return out


def apply_fault(d, path, kind):
    d = copy.deepcopy(d)
    cur = d
    for p in path[:-1]:
        cur = cur[p]
    if kind == "delete":
        del cur[path[-1]]
    else:
        cur[path[-1]] = copy.deepcopy(KVAL[kind])
    return d


def _num(x):
    """valid / unspecified / invalid reading of a number field"""
    if isinstance(x, bool):
        return "unspecified"
    if isinstance(x, (int, float)):
        return "valid"
    # a string is the wrong kind for a number field even when it spells a number ("7"): the statement asks for
    # rejection rather than "being read as something else" (wave 6, W6C14-A)
    return "invalid"


def ref_validate(d, rep):
    """returns ('valid', contract-json) | ('invalid', why) | ('unspecified', why) for a faulted dictionary"""
    if not isinstance(d, dict):
        return "invalid", "not a dictionary"
    for kw in ("input_vars", "output_vars", "assumptions", "guarantees"):
        if kw not in d:
            return "invalid", "missing " + kw
        if not isinstance(d[kw], list):
            return "invalid", kw + " is not a list"
    for kw in ("input_vars", "output_vars"):
        for x in d[kw]:
            if not isinstance(x, str):
                return "invalid", "variable name is not a string"
    unspec = None
    terms = {}
    for kw in ("assumptions", "guarantees"):
        terms[kw] = []
        for cl in d[kw]:
            if rep == "string":
                if not isinstance(cl, str):
                    return "invalid", "constraint is not a string"
                terms[kw].append(cl)
                continue
            if not isinstance(cl, dict):
                return "invalid", "clause is not a dictionary"
            for kk in ("constant", "coefficients"):
                if kk not in cl:
                    return "invalid", "clause lacks " + kk
            if not isinstance(cl["coefficients"], dict):
                return "invalid", "coefficients is not a dictionary"
            r = _num(cl["constant"])
            if r == "invalid":
                return "invalid", "constant is not a number"
            if r == "unspecified":
                unspec = "constant"
            co = {}
            for k, v in cl["coefficients"].items():
                if not isinstance(k, str):
                    return "invalid", "coefficient key"
                r = _num(v)
                if r == "invalid":
                    return "invalid", "coefficient is not a number"
                if r == "unspecified":
                    unspec = "coefficient"
                else:
                    co[k] = v
            terms[kw].append([co, cl["constant"]])
    if unspec:
        return "unspecified", unspec
    return "valid", {"i": d["input_vars"], "o": d["output_vars"], "a": terms["assumptions"], "g": terms["guarantees"]}


def _wellformed(ins, outs, avars, gvars):
    return len(set(ins)) == len(ins) and len(set(outs)) == len(outs) and not set(ins) & set(outs) and set(avars) <= set(ins) \
        and set(gvars) <= set(ins) | set(outs)


FILE_FAULTS = [
    ("not a list", {"type": "PolyhedralIoContract", "name": "c", "data": {}}),
    ("entry not a dict", [["x"]]),
    ("entry is a string", ["c"]),
    ("missing type", [{"name": "c", "data": {"input_vars": [], "output_vars": [], "assumptions": [], "guarantees": []}}]),
    ("unknown type", [{"type": "Nope", "name": "c", "data": {"input_vars": [], "output_vars": [], "assumptions": [], "guarantees": []}}]),
    ("missing name", [{"type": "PolyhedralIoContract", "data": {"input_vars": [], "output_vars": [], "assumptions": [], "guarantees": []}}]),
    ("missing data", [{"type": "PolyhedralIoContract", "name": "c"}]),
    ("missing data (machine)", [{"type": "PolyhedralIoContract_machine", "name": "c"}]),
    ("data is a list", [{"type": "PolyhedralIoContract_machine", "name": "c", "data": []}]),
    ("data is null", [{"type": "PolyhedralIoContract", "name": "c", "data": None}]),
    ("type is a number", [{"type": 3, "name": "c", "data": {}}]),
    ("top level null", None),
    ("top level number", 3),
]

ALLOWED_DICT = ("ContractFormatError", "ValueError", "IncompatibleArgsError", "PolyhedralSyntaxException", "PolyhedralSyntaxConvexException")
_TMP = [None]


def worker_init():
    _TMP[0] = tempfile.mkdtemp(prefix="pvc14_")
    import atexit

    atexit.register(lambda: shutil.rmtree(_TMP[0], ignore_errors=True))


def _exc_ok(e):
    from pacti.utils.errors import ContractFormatError

    return isinstance(e, (ContractFormatError, ValueError)) or type(e).__name__ in ALLOWED_DICT


def _same_contract(c, ref):
    """loaded contract has the reference interface and meaning (terms compared exactly before simplification is trusted)"""
    from .. import compsem as CS
    from .. import oracle as O

    if [v.name for v in c.inputvars] != ref["i"] or [v.name for v in c.outputvars] != ref["o"]:
        return False
    ra, rg = O.rts(plist(ref["a"])), O.rts(plist(ref["g"]))
    return CS.equiv(O.rts(c.a), ra) is None and CS.equiv(O.rts(c.a) + O.rts(c.g), ra + rg) is None


def run_fault(case):
    from pacti.contracts import PolyhedralIoContract
    from pacti.terms.polyhedra.serializer import polyhedral_termlist_from_string, validate_contract_dict
    from pacti.utils.fileio import read_contracts_from_file

    rep = case["rep"]
    base = base_dicts(rep)[case["base"]]
    d = apply_fault(base, case["path"], case["kind"])
    verdict, info = ref_validate(d, rep)
    ref = None
    if verdict == "valid":
        if rep == "string":
            try:
                ref = {"i": info["i"], "o": info["o"], "a": [jt for s in info["a"] for jt in _parse_j(s)], "g": [jt for s in info["g"] for jt in _parse_j(s)]}
            except Exception:  # noqa
                verdict, info = "invalid", "constraint string does not parse"
        else:
            ref = info
        if ref is not None and not _wellformed(ref["i"], ref["o"], grids.lvars(ref["a"]), grids.lvars(ref["g"])):
            verdict, info = "invalid", "ill-formed contract (variables outside the interface)"
    out = []
    machine = rep == "machine"
    targets = [("validate", lambda: validate_contract_dict(d, "c", machine_representation=machine))]
    if machine:
        targets.append(("from_dict", lambda: PolyhedralIoContract.from_dict(d)))
    fn = os.path.join(_TMP[0], "f.json")

    def via_file():
        with open(fn, "w") as f:
            json.dump([{"type": "PolyhedralIoContract_machine" if machine else "PolyhedralIoContract", "name": "c", "data": d}], f)
        return read_contracts_from_file(fn)[0][0]

    targets.append(("file", via_file))
    for name, f in targets:
        sub = {"target": name}
        viol = None
        try:
            r = f()
            loaded = True
        except Exception as e:  # noqa
            loaded = False
            exc = e
        if verdict == "unspecified":
            if not loaded and not _exc_ok(exc):
                viol = {"sub": sub, "what": "%s escaped as %s: %s" % (name, type(exc).__name__, str(exc)[:80])}
            out.append(("fault:unspecified", False, None, viol))
            continue
        if verdict == "invalid":
            if loaded:
                if name == "validate":
                    # the validator only promises structural checks; ill-formed variable usage is the constructor's job
                    if info.startswith("ill-formed") or info.startswith("constraint string"):
                        out.append(("fault:validate-passes-structure", False, None, None))
                        continue
                    viol = {"sub": sub, "what": "invalid dictionary (%s) accepted by validate_contract_dict" % info}
                else:
                    viol = {"sub": sub, "what": "invalid dictionary (%s) was loaded as a contract by %s" % (info, name)}
            elif not _exc_ok(exc):
                viol = {"sub": sub, "what": "%s rejected an invalid dictionary (%s) with %s instead of ContractFormatError/ValueError: %s" % (
                    name, info, type(exc).__name__, str(exc)[:80])}
            out.append(("fault:rejected", True, None, viol))
            continue
        # still valid
        if not loaded:
            from .. import oracle as O

            feas = O.feasible(O.rts(plist(ref["a"])) + O.rts(plist(ref["g"])))
            if not (isinstance(exc, ValueError) and not feas):
                viol = {"sub": sub, "what": "%s rejected a still-valid dictionary with %s: %s" % (name, type(exc).__name__, str(exc)[:80])}
        elif name != "validate" and not _same_contract(r, ref):
            viol = {"sub": sub, "what": "%s loaded a still-valid dictionary with a different meaning" % name}
        out.append(("fault:loaded", False, None, viol))
    if os.path.exists(fn):
        os.remove(fn)
    return out


def _parse_j(s):
    from pacti.terms.polyhedra.serializer import polyhedral_termlist_from_string
    from ..build import jterm

    return [jterm(t) for t in polyhedral_termlist_from_string(s)]


def run_file_fault(case):
    from pacti.utils.fileio import read_contracts_from_file

    what, content = FILE_FAULTS[case["k"]]
    fn = os.path.join(_TMP[0], "ff.json")
    with open(fn, "w") as f:
        json.dump(content, f)
    viol = None
    try:
        read_contracts_from_file(fn)
        viol = {"sub": what, "what": "malformed file (%s) was read without error" % what}
    except Exception as e:  # noqa
        if not _exc_ok(e):
            viol = {"sub": what, "what": "malformed file (%s) escaped as %s" % (what, type(e).__name__)}
    os.remove(fn)
    out = [("file-fault:rejected", True, None, viol)]
    try:
        read_contracts_from_file(os.path.join(_TMP[0], "does-not-exist.json"))
        out.append(("file-fault:rejected", False, None, {"sub": "nofile", "what": "missing file read without error"}))
    except ValueError:
        pass
    except Exception as e:  # noqa
        out.append(("file-fault:rejected", False, None, {"sub": "nofile", "what": "missing file escaped as %s" % type(e).__name__}))
    return out


# ------------------------------------------------------------------ (a) execution
def _snap(objs):
    from .. import session as S

    return [S.canon(o) for o in objs]


def _classify(name, f, allowed, operands, out, sub):
    from pacti.utils.errors import IncompatibleArgsError

    before = _snap(operands)
    try:
        r = f()
        oc = "adv:returned"
        exc = None
    except IncompatibleArgsError as e:
        oc, exc = "adv:IncompatibleArgsError", e
    except ValueError as e:
        oc, exc = "adv:ValueError", e
    except Exception as e:  # noqa
        oc, exc = "adv:escaped:" + type(e).__name__, e
    viol = None
    if oc.startswith("adv:escaped") or (exc is not None and type(exc).__name__ not in allowed and not (isinstance(exc, ValueError) and "ValueError" in allowed)):
        viol = {"sub": sub, "what": "%s raised %s (%s), documented: %s" % (name, type(exc).__name__, str(exc)[:80], sorted(allowed))}
    elif _snap(operands) != before:
        viol = {"sub": sub, "what": "%s modified its operands%s" % (name, " while failing" if exc is not None else "")}
    elif exc is not None:
        # the operands stay usable: the same call fails the same way again
        try:
            f()
            viol = {"sub": sub, "what": "%s failed once and succeeded on the repeated call" % name}
        except Exception as e2:  # noqa
            if type(e2) is not type(exc):
                viol = {"sub": sub, "what": "%s raised %s, then %s on the repeated call" % (name, type(exc).__name__, type(e2).__name__)}
    out.append((oc, exc is not None, None, viol))


VE = {"ValueError"}
IA = {"ValueError", "IncompatibleArgsError"}


def worker_exit():
    if _TMP[0] is not None:
        shutil.rmtree(_TMP[0], ignore_errors=True)
        _TMP[0] = None


def run_case(case):
    from pacti.iocontract import Var

    if _TMP[0] is None:
        worker_init()
    fam = case["fam"]
    out = []
    if fam == "fault":
        return run_fault(case)
    if fam == "file-fault":
        return run_file_fault(case)
    if fam == "reuse":
        mod = importlib.import_module("pv.checks." + case["pid"])
        n = 0
        bad = 0
        for idx, c in enumerate(mod.cases("quick", 0)):
            if idx % case["stride"] != case["offset"]:
                continue
            res = mod.run_case(c)
            for r in res:
                n += 1
                if r[0].startswith("escaped") or "escaped:" in r[0]:
                    bad += 1
                    if bad <= 3:
                        out.append(("reuse:escaped", False, None, {"sub": {"from": case["pid"], "case": c, "detail": r[3]}, "what": "%s in a %s case" % (r[0], case["pid"].upper())}))
        out.append(("reuse:classified", True, None, None, {"reuse:classified": n}))
        return out
    if fam == "adv-elim":
        L = adv_lists()
        S, G = plist(L[case["S"]]), plist(L[case["G"]])
        for elim in (["y"], ["y", "z"], ["x", "y", "z"], ["w"]):
            ev = pvars(elim)
            for order in TAC:
                for simp in (True, False):
                    sub = {"elim": elim, "order": order, "simplify": simp}
                    _classify("elim_vars_by_refining", lambda: S.elim_vars_by_refining(G, list(ev), simp, None if order is None else list(order)),
                              VE, [S, G], out, dict(sub, op="refine"))
                    _classify("elim_vars_by_relaxing", lambda: S.elim_vars_by_relaxing(G, list(ev), simp, None if order is None else list(order)),
                              VE, [S, G], out, dict(sub, op="relax"))
        _classify("simplify", lambda: S.simplify(G), VE, [S, G], out, {"op": "simplify"})
        _classify("refines", lambda: S.refines(G), VE, [S, G], out, {"op": "refines"})
        _classify("union", lambda: S | G, VE, [S, G], out, {"op": "or"})
        return out
    if fam == "adv-list":
        S = plist(adv_lists()[case["S"]])
        _classify("simplify()", lambda: S.simplify(), VE, [S], out, {"op": "simplify-noctx"})
        _classify("is_empty", lambda: S.is_empty(), VE, [S], out, {"op": "is_empty"})
        _classify("optimize", lambda: S.optimize({Var("x"): 1.0}), VE, [S], out, {"op": "optimize"})
        _classify("optimize-absent", lambda: S.optimize({Var("q"): 1.0}, False), VE, [S], out, {"op": "optimize-absent"})
        _classify("contains_behavior", lambda: S.contains_behavior({Var("x"): 0.0, Var("y"): 0.0, Var("z"): 0.0}), VE, [S], out, {"op": "contains"})
        _classify("contains_behavior-missing", lambda: S.contains_behavior({Var("x"): 0.0}), VE, [S], out, {"op": "contains-missing"})
        _classify("to_str_list", lambda: S.to_str_list(), VE, [S], out, {"op": "to_str_list"})
        _classify("copy", lambda: S.copy(), VE, [S], out, {"op": "copy"})
        return out
    if fam == "adv-contract":
        C = adv_contracts()
        try:
            c1, c2 = contract(C[case["c1"]]), contract(C[case["c2"]])
        except ValueError:
            # infeasible operand: the constructor's documented refusal; try again without simplification
            c1, c2 = contract(C[case["c1"]], simplify=False), contract(C[case["c2"]], simplify=False)
        for order in TAC:
            for simp in (True, False):
                sub = {"order": order, "simplify": simp}
                _classify("compose", lambda: c1.compose_tactics(c2, [], simp, None if order is None else list(order)), IA, [c1, c2], out, dict(sub, op="compose"))
                _classify("quotient", lambda: c1.quotient_tactics(c2, None, simp, None if order is None else list(order)), IA, [c1, c2], out, dict(sub, op="quotient"))
        _classify("compose-keep", lambda: c1.compose(c2, [v.name for v in c1.outputvars]), IA, [c1, c2], out, {"op": "compose-keep"})
        _classify("compose-keep-bad", lambda: c1.compose(c2, ["nope"]), IA, [c1, c2], out, {"op": "compose-keep-bad"})
        _classify("compose-keep-bad2", lambda: c1.compose(c2, ["nope", "nada", "i"]), IA, [c1, c2], out, {"op": "compose-keep-bad2"})
        _classify("quotient-add-bad2", lambda: c1.quotient(c2, [Var("nope"), Var("nada")]), IA, [c1, c2], out, {"op": "quotient-add-bad2"})
        _classify("quotient-add", lambda: c1.quotient(c2, list(c2.outputvars)), IA, [c1, c2], out, {"op": "quotient-add"})
        _classify("merge", lambda: c1.merge(c2), IA, [c1, c2], out, {"op": "merge"})
        _classify("refines", lambda: c1.refines(c2), IA, [c1, c2], out, {"op": "refines"})
        _classify("rename", lambda: c1.rename_variable(Var("i"), Var("o")), IA, [c1], out, {"op": "rename"})
        _classify("optimize", lambda: c1.optimize("o"), IA, [c1], out, {"op": "optimize"})
        _classify("bounds", lambda: c1.get_variable_bounds("i"), IA, [c1], out, {"op": "bounds"})
        _classify("to_dict", lambda: c1.to_dict(), IA, [c1], out, {"op": "to_dict"})
        _classify("copy", lambda: c1.copy(), IA, [c1], out, {"op": "copy"})
        return out
    raise ValueError(fam)
