"""C11 — behaviour membership and emptiness agree with exact arithmetic (E1, DESIGN.md 4/C11)."""
import itertools
from fractions import Fraction as F

from .. import grids
from .. import oracle as O
from ..build import plist, pvars
from pacti.iocontract import Var

ID = "C11"
LEVEL = "exploration"
NSLICES = 8
LAT = [-2, -1.5, -1, -0.5, 0, 0.5, 1, 1.5, 2]
RULE = (
    "E1 exhaustive. member: every list in L<=2 over T({x,y},{-2,-1,-0.5,0,0.5,1,2},{-1,0,0.5,1}) x every behaviour of the "
    "dyadic lattice {-2,-1.5,..,2}^2 (which contains points on, inside and outside every constraint boundary) "
    "(quick: complete for <=1 term + one 1/%d slice of the 2-term lists; thorough: complete), plus per list: each "
    "constrained variable left unassigned (must raise ValueError), an extra unconstrained variable assigned; member3: "
    "3 variables on {-1,0,0.5,1}^3; empty: is_empty on every list of L<=3 over T({x,y},{-1,0,1},{-1,0,1}) and on thin "
    "systems c <= k.v <= c+m with margins m in {+-1e-3, +-2^-10, 0, 1} (2 variables) and {+-1/8, 0, +-1} over 3 variables (fewer "
    "constraints than variables); emptyseq: sequences of near-duplicate lists that differ beyond the 4th significant digit queried in "
    "one process; hair: behaviours on every boundary and 2^-10, 2^-20, 2^-30 inside/outside it (coefficients powers of two, "
    "constants up to 4096); consist: ordered pairs (L,R) of small lists: "
    "whenever refines answers True every lattice behaviour in L is in R. Oracle: Fraction evaluation of every "
    "inequality; exact feasibility. Non-trivial = behaviour evaluations on a list with at least one constraint / "
    "emptiness of a list with >= 2 constraints." % NSLICES
)
REQUIRED = ["in", "out", "boundary-in", "unassigned:ValueError", "empty:True", "empty:False", "thin", "consist"]

V2 = ["x", "y"]


def _all():
    T = grids.terms(V2, [-2, -1, -0.5, 0, 0.5, 1, 2], [-1, 0, 0.5, 1])
    for L in grids.lists_upto(T, 1):
        yield {"fam": "member", "L": L}
    TE = grids.terms(V2, [-1, 0, 1], [-1, 0, 1])
    for L in grids.lists_upto(TE, 2):
        yield {"fam": "empty", "L": L}
    for v in grids.vectors(2, [-1, 0, 1, 2]):
        for c in (0, 1):
            for m in (0.001, -0.001, 2.0 ** -10, -(2.0 ** -10), 0, 1, -1):
                t1 = [{n: k for n, k in zip(V2, v) if k}, c + m]
                t2 = [{n: -k for n, k in zip(V2, v) if k}, -c]
                yield {"fam": "empty", "L": [t1, t2], "thin": m}
                yield {"fam": "empty", "L": [t2, t1, [{"x": 1, "y": 1}, 3]], "thin": m}
    # three variables, fewer constraints than variables, thin and wide margins
    for v in grids.vectors(3, [-1, 0, 1, 2]):
        if sum(1 for k in v if k) < 2:
            continue
        for c in (0, 1):
            for m in (1, -1, -0.125, 0.125, 0):
                co = {n: k for n, k in zip(["x", "y", "z"], v) if k}
                yield {"fam": "empty", "L": [[co, c + m], [{n: -k for n, k in co.items()}, -c]], "thin": m}
    # sequences of near-duplicate lists (differing beyond the 4th significant digit) queried in one process
    for base in (10000, 16, 1234):
        for d in (0.25, 2.0 ** -9):
            for v in ({"x": 1}, {"x": 1, "y": 2, "z": -1}):
                neg = {n: -k for n, k in v.items()}
                feas = [[v, base], [neg, -(base - d)]]
                infe = [[v, base], [neg, -(base + d)]]
                yield {"fam": "emptyseq", "seq": [feas, infe]}
                yield {"fam": "emptyseq", "seq": [infe, feas]}
    # behaviours a hair outside / inside a boundary (exact dyadic offsets down to 2^-30)
    for t in grids.terms(V2, [-2, -1, 0, 1, 2, 4], [-1, 0, 1, 4096]):
        yield {"fam": "hair", "L": [t]}
    TC = grids.terms(V2, [-1, 0, 1], [0, 1])
    LC = list(grids.lists_upto(TC, 2))
    for L in LC[:60]:
        for R in LC[:137]:
            yield {"fam": "consist", "L": L, "R": R}
    T3 = grids.terms(["x", "y", "z"], [-1, 0, 1, 2], [0, 1])
    for L in grids.lists_upto(T3, 2, minlen=1):
        if len(L) == 1 or (len(L[0][0]) + len(L[1][0]) >= 5):
            yield {"fam": "member3", "L": L}
    for L in grids.lists_upto(T, 2, minlen=2):
        yield {"fam": "member", "L": L, "two": True}
    for L in grids.lists_upto(TE, 3, minlen=3):
        yield {"fam": "empty", "L": L, "three": True}


def cases(tier, seed):
    sl = seed % NSLICES
    k = 0
    for c in grids.dedupe(_all()):
        if tier == "thorough" or not (c.get("two") or c.get("three") or c["fam"] == "member3"):
            yield c
        else:
            k += 1
            if k % NSLICES == sl:
                yield c


def describe(tier, seed):
    return {"slice": None if tier == "thorough" else "%d of %d" % (seed % NSLICES, NSLICES)}


def _ref_in(rL, pt):
    return all(O.lhs(t, pt) <= t[1] for t in rL)


def _member(case, names, lat):
    L = plist(case["L"])
    rL = O.rts(L)
    used = sorted(grids.lvars(case["L"]))
    out = []
    vs = {n: Var(n) for n in names + ["extra"]}
    for vals in itertools.product(lat, repeat=len(names)):
        beh = {vs[n]: v for n, v in zip(names, vals)}
        pt = {n: F(v) for n, v in zip(names, vals)}
        exp = _ref_in(rL, pt)
        try:
            got = L.contains_behavior(beh)
        except Exception as e:  # noqa
            out.append(("escaped:" + type(e).__name__, False, None,
                        {"sub": list(vals), "what": "contains_behavior raised %s on a complete assignment" % type(e).__name__}))
            continue
        viol = None
        if got is not exp:
            viol = {"sub": list(vals), "what": "contains_behavior answered %r, exact evaluation says %r" % (got, exp)}
        extra = None
        if exp and any(O.lhs(t, pt) == t[1] for t in rL):
            extra = {"boundary-in": 1}
        out.append(("in" if got else "out", bool(rL), None, viol, extra))
    # unassigned constrained variable -> ValueError ; extra variable ignored
    for miss in used:
        beh = {vs[n]: 0.5 for n in names if n != miss}
        try:
            got = L.contains_behavior(beh)
            out.append(("unassigned:answered", False, None, {"sub": "missing " + miss, "what": "constrained variable %s unassigned but no ValueError (answered %r)" % (miss, got)}))
        except ValueError:
            out.append(("unassigned:ValueError", True, None, None))
        except Exception as e:  # noqa
            out.append(("escaped:" + type(e).__name__, False, None, {"sub": "missing " + miss, "what": "raised %s instead of ValueError" % type(e).__name__}))
    beh = {vs[n]: 0.5 for n in names}
    beh[vs["extra"]] = 7.0
    exp = _ref_in(rL, {n: F(1, 2) for n in names})
    try:
        got = L.contains_behavior(beh)
        out.append(("extra-var", False, None, None if got is exp else {"sub": "extra", "what": "an extra assigned variable changed the answer"}))
    except Exception as e:  # noqa
        out.append(("escaped:" + type(e).__name__, False, None, {"sub": "extra", "what": "extra variable raised %s" % type(e).__name__}))
    return out


def run_case(case):
    fam = case["fam"]
    if fam == "member":
        return _member(case, V2, LAT)
    if fam == "member3":
        return _member(case, ["x", "y", "z"], [-1, 0, 0.5, 1])
    if fam == "empty":
        L = plist(case["L"])
        rL = O.rts(L)
        exp = not O.feasible(rL)
        try:
            got = L.is_empty()
        except Exception as e:  # noqa
            return [("escaped:" + type(e).__name__, False, None, {"sub": "is_empty", "what": "is_empty raised %s" % type(e).__name__})]
        viol = None if got is exp else {"sub": "is_empty", "what": "is_empty answered %r, exact feasibility says empty=%r" % (got, exp)}
        return [("empty:%s" % got, len(rL) >= 2, None, viol, {"thin": 1} if "thin" in case else None)]
    if fam == "emptyseq":
        out = []
        for k, Lj in enumerate(case["seq"]):
            L = plist(Lj)
            exp = not O.feasible(O.rts(L))
            got = L.is_empty()
            viol = None if got is exp else {"sub": "is_empty#%d" % k, "what": "is_empty answered %r for query %d of a sequence of near-duplicate lists, exact: empty=%r" % (got, k, exp)}
            out.append(("empty:%s" % got, True, None, viol, {"thin": 1}))
        return out
    if fam == "hair":
        L = plist(case["L"])
        rL = O.rts(L)
        co, c = case["L"][0]
        vs = {n: Var(n) for n in V2}
        out = []
        pivot = sorted(co)[0]
        a = co[pivot]
        for other in (-1.5, 0, 2):
            rest = sum(k * other for n, k in co.items() if n != pivot)
            on = (c - rest) / a  # exact: a is a power of two
            for off in (0.0, 2.0 ** -10, -(2.0 ** -10), 2.0 ** -20, -(2.0 ** -20), 2.0 ** -30, -(2.0 ** -30)):
                val = on + off
                beh = {vs[n]: (val if n == pivot else other) for n in V2}
                pt = {n: F(beh[vs[n]]) for n in V2}
                exp = _ref_in(rL, pt)
                got = L.contains_behavior(beh)
                viol = None if got is exp else {"sub": [pivot, repr(val), other], "what": "contains_behavior answered %r for a behaviour %s the boundary by 2^%d, exact evaluation says %r" % (
                    got, "beyond" if not exp else "within", 0 if off == 0 else round(__import__("math").log2(abs(off))), exp)}
                out.append(("in" if got else "out", True, None, viol, {"boundary-in": 1} if (exp and off == 0) else None))
        return out
    if fam == "consist":
        L, R = plist(case["L"]), plist(case["R"])
        if not L.refines(R):
            return [("consist:not-refines", False, None, None)]
        vs = {n: Var(n) for n in V2}
        out = []
        for vals in itertools.product(LAT, repeat=2):
            beh = {vs[n]: v for n, v in zip(V2, vals)}
            if L.contains_behavior(beh) and not R.contains_behavior(beh):
                out.append(("consist", True, None, {"sub": list(vals), "what": "L refines R, behaviour in L but not in R"}))
        out.append(("consist", bool(case["L"]) and bool(case["R"]), None, None, {"consist": 1}))
        return out
    raise ValueError(fam)
