"""C03 — refinement tests decide semantic containment exactly (E1, DESIGN.md 4/C03)."""
import itertools

from .. import grids
from .. import oracle as O
from ..build import plist, pvars, contract

ID = "C03"
LEVEL = "exploration"
NSLICES = 64
RULE = (
    "E1 exhaustive grid of ordered pairs. Families: lists (L in L<=2, R in L<=1 over T({x,y},{-1,0,1,2},{-2,0,1}): negative "
    "constants give polyhedra away from the origin and separated pairs with gaps above and below the LP's slack of 1; "
    "complete in quick (derived and contracts families: one complete half per seed); R with 2 terms: one 1/%d slice in quick, complete in thorough), derived (R = positive "
    "combinations / scalings / duplicates of L's terms with multipliers {1,2,1/2}), margin (R = a term of L tightened or loosened "
    "by 5e-4, 2e-3, 5e-2: just beyond the tolerance band on either side), v3 (3 variables, thorough), "
    "contracts (all ordered pairs of 133 contracts over one interface: refines, <=, contains_environment, "
    "contains_implementation), interfaces (every ordered pair of different interfaces over <=3 names must raise "
    "IncompatibleArgsError). Oracle three-valued: exact containment (no point at all outside) => must be True; a box "
    "point of the left side breaks a right term by > 1e-4(1+|c|) => must be False; in between no verdict. "
    "Non-trivial = both sides non-empty lists and both feasible (for contracts: both assumption sets and the left "
    "guarantees feasible)." % NSLICES
)
REQUIRED = ["must-true", "must-false", "reflexive", "sublist", "left-infeasible", "right-infeasible", "IncompatibleArgsError",
            "contract:must-true", "contract:must-false", "env:must-true", "env:must-false", "impl:must-true", "impl:must-false"]

V2 = ["x", "y"]


def _T2():
    return grids.terms(V2, [-1, 0, 1, 2], [-2, 0, 1])


def _scale(t, k):
    return [{n: c * k for n, c in t[0].items()}, t[1] * k]


def _add(t, u):
    d = dict(t[0])
    for n, c in u[0].items():
        d[n] = d.get(n, 0) + c
    return [{n: c for n, c in d.items() if c != 0}, t[1] + u[1]]


def _contracts():
    a_terms = grids.terms(["i"], [-1, 1], [-2, 0, 1])
    g_terms = [t for t in grids.terms(["i", "o"], [-1, 0, 1], [-2, 0, 1]) if "o" in t[0]]
    out = []
    for a in grids.lists_upto(a_terms, 1):
        for g in grids.lists_upto(g_terms, 1):
            out.append({"i": ["i"], "o": ["o"], "a": a, "g": g})
    return out


def _interfaces():
    names = ["a", "b", "c"]
    out = []
    for roles in itertools.product("io-", repeat=3):
        out.append(([n for n, r in zip(names, roles) if r == "i"], [n for n, r in zip(names, roles) if r == "o"]))
    return out


def _all():
    T = _T2()
    L2 = list(grids.lists_upto(T, 2))
    R1 = list(grids.lists_upto(T, 1))
    for L in L2:
        for R in R1:
            yield {"fam": "lists", "L": L, "R": R}
    # derived right sides: Farkas consequences and boundary cases of every 1-2 term L
    for L in L2:
        if not L:
            continue
        ders = []
        for t in L:
            ders += [[t, t], [_scale(t, 2)], [_scale(t, 0.5)], [[t[0], t[1] + 1]], [t, [t[0], t[1] + 1]]]
        if len(L) == 2:
            for k1, k2 in ((1, 1), (2, 1), (1, 2), (0.5, 0.5), (0.5, 2)):
                s = _add(_scale(L[0], k1), _scale(L[1], k2))
                if s[0]:
                    ders.append([s])
                    ders.append([s, L[0]])
            ders.append([L[1], L[0]])
        for R in ders:
            yield {"fam": "derived", "L": L, "R": R}
    # both sides infeasible (an infeasible left side refines everything, including an infeasible right side and itself)
    inf = [[[{"x": 1}, 0], [{"x": -1}, -2]], [[{"x": 1, "y": 1}, -2], [{"x": -1, "y": -1}, 1]], [[{"y": 2}, 1], [{"y": -1}, -1]]]
    for a in inf:
        for b in inf:
            yield {"fam": "margin", "L": a, "R": b}
            yield {"fam": "margin", "L": a + [[{"x": 1}, 5]], "R": b}
    # terms without variables are either trivially true or make their side infeasible
    vf_true, vf_false = [{}, 1], [{}, -1]
    small = [[], [[{"x": 1}, 1]], [[{"y": 1}, 5], [{"x": -1}, 0]], [[{"x": 1}, 0], [{"x": -1}, -2]]]
    for a in small:
        for b in small:
            for la in ([], [vf_true], [vf_false]):
                for lb in ([], [vf_true], [vf_false]):
                    if la or lb:
                        yield {"fam": "margin", "L": la + a, "R": b + lb}
    # margins: the right side is a term of the left side tightened / loosened by a small amount (tolerance handling)
    for L in L2:
        for t in L:
            for d in (0.0005, 0.002, 0.05, -0.0005, -0.05):
                yield {"fam": "margin", "L": L, "R": [[t[0], t[1] - d]]}
    # a large unrelated constant on the left must not widen the tolerance of the tested row
    for t in T[:30]:
        for big in ([{"y": 1} if "y" not in t[0] else {"x": -1}, 1000], [{"x": -1, "y": -1}, 900]):
            for d in (0.0005, 0.004, 0.05):
                yield {"fam": "margin", "L": [t, big], "R": [[t[0], t[1] - d]]}
    # sequences: look-alike pairs (equal to 4 significant digits) queried one after the other in one process
    for a, b in ((10, 10.00390625), (2500, 2500.375), (1.0001, 1.0004)):
        yield {"fam": "seq", "seq": [[[[{"x": 1}, a]], [[{"x": 1}, a]]], [[[{"x": 1}, b]], [[{"x": 1}, a]]]]}
        yield {"fam": "seq", "seq": [[[[{"x": 2, "y": -3}, b]], [[{"x": 2, "y": -3}, a]]], [[[{"x": 2, "y": -3}, a]], [[{"x": 2, "y": -3}, a]]]]}
    cs = _contracts()
    for c1 in cs:
        for c2 in cs:
            yield {"fam": "contracts", "c1": c1, "c2": c2}
    ifs = _interfaces()
    for (i1, o1) in ifs:
        for (i2, o2) in ifs:
            if set(i1) == set(i2) and set(o1) == set(o2):
                continue
            yield {"fam": "interfaces", "i1": i1, "o1": o1, "i2": i2, "o2": o2}
    # same sets in a different order are the same interface and must be compared, not rejected
    yield {"fam": "interfaces", "i1": ["a", "b"], "o1": ["c"], "i2": ["b", "a"], "o2": ["c"], "same": True}
    R2 = list(grids.lists_upto(T, 2, minlen=2))
    for L in L2:
        for R in R2:
            yield {"fam": "lists2", "L": L, "R": R}
    T3 = grids.terms(["x", "y", "z"], [-1, 0, 1], [0, 1])
    L3 = list(grids.lists_upto(T3, 2))
    for L in L3:
        for R in grids.lists_upto(T3, 1, minlen=1):
            yield {"fam": "v3", "L": L, "R": R}


QUICK = ("lists", "derived", "contracts", "interfaces", "margin", "seq")


def cases(tier, seed):
    sl = seed % NSLICES
    k = 0
    h = 0
    for c in grids.dedupe(_all()):
        if tier == "thorough" or c["fam"] in QUICK:
            if tier != "thorough" and c["fam"] in ("derived", "contracts"):
                h += 1
                if h % 2 != seed % 2:
                    continue  # these two families: one complete half per seed
            yield c
        else:
            k += 1
            if k % NSLICES == sl:
                yield c


def describe(tier, seed):
    return {"slice": None if tier == "thorough" else "%d of %d" % (seed % NSLICES, NSLICES)}


def _verdict(hyp_terms, concl_terms):
    """three-valued exact containment: 'T' exact, 'F' broken by > tol inside the box, '?' in between"""
    if not concl_terms:
        return "T", None
    exact = O.find_point(O.AND(O.sat(hyp_terms), O.OR([("gt", t, O.F(0)) for t in concl_terms])), box=None)
    if exact is None:
        return "T", None
    w = O.implied(O.sat(hyp_terms), concl_terms)
    if w is not None:
        return "F", w
    return "?", None


def _judge(tag, answer, verdict, w, sub, extra):
    if verdict == "T":
        extra[tag + "must-true"] = 1
        if answer is not True:
            return {"sub": sub, "what": tag + "exact containment holds but the test answered %r" % (answer,)}
    elif verdict == "F":
        extra[tag + "must-false"] = 1
        if answer is not False:
            return {"sub": sub, "what": tag + "containment is violated beyond the tolerance but the test answered %r" % (answer,),
                    "witness": O.ptjson(w)}
    else:
        extra[tag + "dont-care"] = 1
    return None


def _run_lists(case):
    L, R = plist(case["L"]), plist(case["R"])
    rL, rR = O.rts(L), O.rts(R)
    extra = {}
    try:
        ans = L.refines(R)
        ans2 = L <= R
    except Exception as e:  # noqa
        return [("escaped:" + type(e).__name__, False, None, {"sub": "refines", "what": "refines raised %s: %s" % (type(e).__name__, e)})]
    v, w = _verdict(rL, rR)
    lf, rf = O.feasible(rL), O.feasible(rR)
    if case["L"] == case["R"] and lf:
        extra["reflexive"] = 1
    elif lf and case["R"] and all(t in case["L"] for t in case["R"]):
        extra["sublist"] = 1
    if not lf:
        extra["left-infeasible"] = 1
    if lf and not rf:
        extra["right-infeasible"] = 1
    viol = _judge("", ans, v, w, "refines", extra)
    if viol is None and ans2 is not ans:
        viol = {"sub": "le", "what": "<= and refines disagree: %r vs %r" % (ans2, ans)}
    nontriv = bool(case["L"]) and bool(case["R"]) and lf and rf
    return [("answered:%s" % ans, nontriv, (ans, v), viol, extra)]


def _run_contracts(case):
    from pacti.utils.errors import IncompatibleArgsError  # noqa

    out = []
    try:
        c1 = contract(case["c1"], simplify=False)
        c2 = contract(case["c2"], simplify=False)
    except ValueError as e:
        return [("construct:ValueError", False, None, None)]
    a1, g1, a2, g2 = O.rts(c1.a), O.rts(c1.g), O.rts(c2.a), O.rts(c2.g)
    extra = {}
    # contract refinement
    try:
        ans = c1.refines(c2)
        ans2 = c1 <= c2
    except Exception as e:  # noqa
        return [("escaped:" + type(e).__name__, False, None, {"sub": "contract", "what": "refines raised %s" % type(e).__name__})]
    va, wa = _verdict(a2, a1)
    vg, wg = _verdict(a2 + g1, g2)
    if va == "T" and vg == "T":
        v, w = "T", None
    elif va == "F":
        v, w = "F", wa
    elif vg == "F":
        v, w = "F", wg
    else:
        v, w = "?", None
    viol = _judge("contract:", ans, v, w, "contract", extra)
    if viol is None and ans2 is not ans:
        viol = {"sub": "contract-le", "what": "<= and refines disagree on contracts"}
    nt = O.feasible(a1) and O.feasible(a2) and O.feasible(a1 + g1)
    out.append(("contract:%s" % ans, nt, ("c", ans, v), viol, extra))
    # environment / implementation membership: components are the other contract's lists
    extra = {}
    comp = c1.a
    ans = c2.contains_environment(comp)
    v, w = _verdict(a1, a2)
    out.append(("env:%s" % ans, bool(a1) and bool(a2), ("e", ans, v), _judge("env:", ans, v, w, "env", extra), extra))
    extra = {}
    comp = c1.g
    ans = c2.contains_implementation(comp)
    v, w = _verdict(g1 + a2, g2)
    out.append(("impl:%s" % ans, bool(g1) and bool(g2), ("i", ans, v), _judge("impl:", ans, v, w, "impl", extra), extra))
    return out


def _run_interfaces(case):
    from pacti.contracts import PolyhedralIoContract
    from pacti.terms.polyhedra.polyhedra import PolyhedralTermList
    from pacti.utils.errors import IncompatibleArgsError

    c1 = PolyhedralIoContract(PolyhedralTermList([]), PolyhedralTermList([]), pvars(case["i1"]), pvars(case["o1"]))
    c2 = PolyhedralIoContract(PolyhedralTermList([]), PolyhedralTermList([]), pvars(case["i2"]), pvars(case["o2"]))
    out = []
    for name, f in (("refines", lambda: c1.refines(c2)), ("le", lambda: c1 <= c2)):
        try:
            r = f()
            if case.get("same"):
                out.append(("same-interface:%s" % r, False, None,
                            None if r is True else {"sub": name, "what": "reordered but equal interfaces with empty contracts must refine"}))
            else:
                out.append(("compared", False, None, {"sub": name, "what": "contracts with different interfaces were compared (returned %r)" % (r,)}))
        except IncompatibleArgsError:
            out.append(("IncompatibleArgsError", True, ("iface",), None if not case.get("same") else
                        {"sub": name, "what": "equal interfaces rejected"}))
        except Exception as e:  # noqa
            out.append(("escaped:" + type(e).__name__, False, None, {"sub": name, "what": "raised %s" % type(e).__name__}))
    return out


def run_case(case):
    f = case["fam"]
    if f == "seq":
        out = []
        for k, (Lj, Rj) in enumerate(case["seq"]):
            r = _run_lists({"L": Lj, "R": Rj})[0]
            viol = r[3]
            if viol is not None:
                viol = dict(viol, sub="seq#%d" % k, what="query %d of a sequence of look-alike pairs: %s" % (k, viol["what"]))
            out.append((r[0], True, r[2], viol, r[4]))
        return out
    if f == "contracts":
        return _run_contracts(case)
    if f == "interfaces":
        return _run_interfaces(case)
    return _run_lists(case)
