"""C10 — contracts survive serialisation to dictionaries, strings and files (E1, DESIGN.md 4/C10)."""
import itertools
import json
import math
import os
import shutil
import struct
import tempfile
from decimal import ROUND_HALF_EVEN, Decimal
from fractions import Fraction as F

from .. import oracle as O
from ..build import contract

ID = "C10"
LEVEL = "exploration"
NSLICES = 6
RULE = (
    "E1 exhaustive: contracts over inputs i,j and output o with 0-2 assumption terms and 1-3 guarantee terms whose numbers "
    "range over a magnitude ladder in [1e-4,1e6]: integers and <=4-significant-digit decimals (exact string round trip), each "
    "of those +-1 ulp and perturbed in the 5th / 6th significant digit (rounded reading); families: single (one guarantee "
    "term: every coefficient x constant of the ladder, one and two variables), pair (an opposite-coefficient pair with "
    "constants {equal, negated, both zero, unrelated} in every position of a 2-3 term list, adjacent / separated / reversed; and "
    "near-opposite pairs that must not be folded: extra variable on one side, one coefficient different), "
    "mixed (assumptions + several guarantees). Per contract: from_dict(to_machine_dict(c), simplify=False) must be ==, "
    "hash-equal and bit-identical field by field; machine file -> reader: same interface, equivalent A and A&G; to_dict(): "
    "every emitted string parses, and the parsed terms are exactly the original terms with every number rounded to 4 "
    "significant digits (decimal reference rounding; exact rational comparison); string file -> reader: same interface and "
    "equivalent meaning. quick: single + pair complete, mixed 1/%d slice. Non-trivial = a contract whose printed form "
    "uses a folded pair, a rounded number or an exponent." % NSLICES
)
REQUIRED = ["roundtrip-ok", "folded:abs", "folded:eq", "rounded", "exponent", "file:machine", "file:string"]

BASE = [1, 2, 3, 7, 10, 1000, 1000000, 0.5, 0.25, 0.0001, 1.234, 12.34, 1234, 0.001234, 123400, 999.9, 5.678]


def _ulp(x, k):
    b = struct.unpack("<q", struct.pack("<d", float(x)))[0]
    return struct.unpack("<d", struct.pack("<q", b + k))[0]


def ladder(rich):
    out = list(BASE)
    if rich:
        for b in (1, 3, 1.234, 1234, 0.001234, 999.9, 1000000, 0.0001):
            out += [_ulp(b, 1), _ulp(b, -1), b * (1 + 3e-5), b * (1 - 3e-5), b * (1 + 2e-6), b * (1 + 4e-4)]
    return [x for x in out if 1e-4 <= abs(x) <= 1e6 or x in (0.0001, 1000000)]


def _all():
    lad = ladder(True)
    small = [1, 2, 0.5, 1.234, 1000, 0.0001, 1000000, 1.234 * (1 + 3e-5), _ulp(3, 1)]
    consts = lad + [0, -1, -1.234, -1000000, -0.0001, -999.9 * (1 + 3e-5)]
    # single: one guarantee term
    for c in lad:
        for k in consts:
            for sg in (1, -1):
                yield {"fam": "single", "a": [], "g": [[{"o": sg * c}, k]]}
    for c1, c2 in itertools.product(small, repeat=2):
        for k in (0, 1.234, -1000, 123400 * (1 + 3e-5)):
            yield {"fam": "single", "a": [], "g": [[{"i": c1, "o": -c2}, k]]}
            yield {"fam": "single", "a": [[{"i": c1}, k]], "g": [[{"o": c2, "j": c1}, 1]]}
    # pair: opposite terms in every position
    others = [[{"o": 1, "i": 2}, 3], [{"j": 1}, 5]]
    for co in ({"o": 1}, {"o": 2.5, "i": -1}, {"i": 1.234, "o": 1000}, {"o": 1.234 * (1 + 3e-5)}, {"o": 0.0001, "j": 1000000}):
        neg = {n: -v for n, v in co.items()}
        for k1, k2 in ((2, 2), (2, -2), (0, 0), (2, 5), (1.234, 1.234), (1.234 * (1 + 3e-5), 1.234 * (1 + 3e-5)), (5, -5.00001), (0, 2), (-3, 3), (0.0001, 0.0001)):
            t, u = [co, k1], [neg, k2]
            for g in ([t, u], [u, t], [t, others[0], u], [others[0], t, u], [t, u, others[0]], [u, others[1], t], [t, others[0], others[1], u],
                      [t, u, t]):
                yield {"fam": "pair", "a": [], "g": g}
            yield {"fam": "pair", "a": [[{n: v for n, v in co.items() if n != "o"} or {"i": 1}, k1]], "g": [t, u]}
    # near-opposite pairs that must NOT be folded: the later term has an extra variable, or one coefficient differs
    for k1, k2 in ((2, 2), (2, -2), (0, 0)):
        for t, u in (([{"o": 1}, k1], [{"o": -1, "i": 3}, k2]), ([{"o": 1, "i": 2}, k1], [{"o": -1, "i": -2, "j": 1}, k2]),
                     ([{"o": 1, "i": 2}, k1], [{"o": -1, "i": -3}, k2]), ([{"o": 1, "i": 3}, k1], [{"o": -1}, k2]),
                     ([{"o": 1}, k1], [{"o": -1.01}, k2])):
            for g in ([t, u], [u, t], [t, [{"j": 1}, 5], u]):
                yield {"fam": "pair", "a": [], "g": g}
    # near-opposite pairs at small magnitudes (an absolute closeness test would fold them)
    for t, u in (([{"o": 1}, 0.0012], [{"o": -1}, -0.001205]), ([{"o": 0.01234}, 1], [{"o": -0.01235}, 1]), ([{"o": 0.001}, 0.002], [{"o": -0.001002}, 0.002]),
                 ([{"o": 1, "i": 0.0005}, 2], [{"o": -1, "i": -0.000502}, 2]), ([{"o": 1}, 0.00012], [{"o": -1}, 0.000121])):
        for g in ([t, u], [u, t], [t, [{"j": 1}, 5], u]):
            yield {"fam": "pair", "a": [], "g": g}
    if DEEP[0]:
        big = ladder(True)
        for c1, c2 in itertools.product(big[::2], big[1::3]):
            for k in (0, 1.234, -1000, 123400 * (1 + 3e-5), 0.0001):
                yield {"fam": "single", "a": [], "g": [[{"i": c1, "o": -c2}, k]]}
                yield {"fam": "pair", "a": [], "g": [[{"i": c1, "o": -c2}, k], [{"i": -c1, "o": c2}, k]]}
    # mixed
    gs = [[{"o": 1}, 1000000], [{"o": -1, "i": 0.5}, 0], [{"o": 1.234, "j": -12.34}, 1234], [{"i": 1, "o": 1}, 0.001234], [{"o": -999.9}, 5.678 * (1 + 2e-6)]]
    as_ = [[{"i": 1}, 1000], [{"i": -1}, 0], [{"j": 0.25, "i": 1}, 7], [{"j": -1}, 0.0001]]
    for a in itertools.chain([[]], ([x] for x in as_), itertools.combinations(as_, 2)):
        for n in (1, 2, 3):
            for g in itertools.permutations(gs, n):
                yield {"fam": "mixed", "a": list(a), "g": list(g)}


DEEP = [False]


def cases(tier, seed):
    sl = seed % NSLICES
    k = 0
    from .. import grids

    DEEP[0] = tier == "thorough"

    for c in grids.dedupe(_all()):
        if tier == "thorough" or c["fam"] != "mixed":
            yield c
        else:
            k += 1
            if k % NSLICES == sl:
                yield c


def describe(tier, seed):
    return {"slice": None if tier == "thorough" else "mixed %d of %d" % (seed % NSLICES, NSLICES)}


def round4(x):
    """reference: round the exact value of the float x to 4 significant digits (half-even), back to float"""
    if x == 0:
        return 0.0
    d = Decimal(float(x))
    e = d.adjusted()
    q = Decimal(1).scaleb(e - 3)
    return float(d.quantize(q, rounding=ROUND_HALF_EVEN))


def ref_terms(terms):
    out = []
    for co, k in terms:
        out.append((tuple(sorted((n, F(round4(v))) for n, v in co.items())), F(round4(k))))
    return out


def bits(c):
    return ([v.name for v in c.inputvars], [v.name for v in c.outputvars],
            [[sorted((v.name, struct.pack("<d", x)) for v, x in t.variables.items()), struct.pack("<d", t.constant)] for t in c.a.terms],
            [[sorted((v.name, struct.pack("<d", x)) for v, x in t.variables.items()), struct.pack("<d", t.constant)] for t in c.g.terms])


EPS = F(1, 10**12)


def same_meaning_exact(t1, t2):
    """exact equivalence of two conjunctions of rational terms (all real points)"""
    for a, b in ((t1, t2), (t2, t1)):
        if b and O.find_point(O.AND(O.sat(a), O.OR([("gt", t, EPS * (1 + abs(t[1]))) for t in b])), box=None) is not None:
            return False
    return True


_TMP = [None]


def worker_init():
    _TMP[0] = tempfile.mkdtemp(prefix="pvc10_")
    import atexit

    atexit.register(lambda: shutil.rmtree(_TMP[0], ignore_errors=True))


def worker_exit():
    if _TMP[0] is not None:
        shutil.rmtree(_TMP[0], ignore_errors=True)
        _TMP[0] = None


def run_case(case):
    from pacti.contracts import PolyhedralIoContract
    from pacti.terms.polyhedra.serializer import polyhedral_termlist_from_string
    from pacti.utils.fileio import read_contracts_from_file, write_contracts_to_file

    if _TMP[0] is None:
        worker_init()
    out = []
    spec = {"i": ["i", "j"], "o": ["o"], "a": case["a"], "g": case["g"]}
    c = contract(spec, simplify=False)
    # ---------------- machine dictionary
    sub = {"path": "machine-dict"}
    viol = None
    try:
        d = c.to_machine_dict()
        json.dumps(d)
        c2 = PolyhedralIoContract.from_dict(d, simplify=False)
        if not (c2 == c) or hash(c2) != hash(c) or bits(c2) != bits(c):
            viol = {"sub": sub, "what": "from_dict(to_machine_dict(c), simplify=False) is not identical to c"}
    except Exception as e:  # noqa
        viol = {"sub": sub, "what": "machine dictionary round trip raised %s: %s" % (type(e).__name__, str(e)[:100])}
    out.append(("roundtrip-ok" if viol is None else "roundtrip-bad", False, None, viol))
    # ---------------- string form
    sub = {"path": "strings"}
    viol = None
    extra = {}
    try:
        sd = c.to_dict()
        for key, orig in (("assumptions", case["a"]), ("guarantees", case["g"])):
            parsed = []
            for s in sd[key]:
                if "|" in s:
                    extra["folded:abs"] = 1
                elif "=" in s and "<=" not in s:
                    extra["folded:eq"] = 1
                if "e" in s.lower().replace("<=", ""):
                    pass
                try:
                    parsed += [O.rt(t) for t in polyhedral_termlist_from_string(s)]
                except Exception as e:  # noqa
                    viol = {"sub": sub, "what": "the printer emitted %r which the parser rejects (%s)" % (s, type(e).__name__)}
                    break
            if viol:
                break
            ref = ref_terms(orig)
            if sorted(parsed) != sorted(ref) and not same_meaning_exact(parsed, ref):
                viol = {"sub": sub, "what": "%s printed as %s do not read back as the original rounded to 4 significant digits" % (key, sd[key]),
                        "parsed": [str(p) for p in parsed], "reference": [str(p) for p in ref]}
                break
        if any(("e+" in s or "e-" in s) for k in ("assumptions", "guarantees") for s in sd[k]):
            extra["exponent"] = 1
        if any(round4(v) != v for co, k in case["a"] + case["g"] for v in list(co.values()) + [k]):
            extra["rounded"] = 1
        if viol is None and (sd["input_vars"] != spec["i"] or sd["output_vars"] != spec["o"]):
            viol = {"sub": sub, "what": "interface lists changed in to_dict()"}
    except Exception as e:  # noqa
        viol = {"sub": sub, "what": "string conversion raised %s: %s" % (type(e).__name__, str(e)[:100])}
    out.append(("strings-ok" if viol is None else "strings-bad", bool(extra), None, viol, extra))
    # ---------------- files (both representations) through the reader
    moderate = all(1e-3 <= abs(v) <= 1e4 or v == 0 for co, k in case["a"] + case["g"] for v in list(co.values()) + [k])
    for machine in (True, False):
        sub = {"path": "file", "machine": machine}
        viol = None
        fn = os.path.join(_TMP[0], "c.json")
        try:
            write_contracts_to_file([c], ["c"], fn, machine_representation=machine)
            try:
                cs, names = read_contracts_from_file(fn)
            except ValueError as e:
                # the reader re-simplifies: a ValueError is legitimate only for unsatisfiable contents
                if O.feasible(O.rts(c.a) + O.rts(c.g)):
                    viol = {"sub": sub, "what": "reading back the written file raised ValueError for a satisfiable contract: %s" % str(e)[:80]}
                cs = None
            if cs is not None:
                r = cs[0]
                if names != ["c"] or [v.name for v in r.inputvars] != spec["i"] or [v.name for v in r.outputvars] != spec["o"]:
                    viol = {"sub": sub, "what": "name or interface changed by the file round trip"}
                elif moderate:
                    ref_a = O.rts(c.a) if machine else ref_terms(case["a"])
                    ref_g = O.rts(c.g) if machine else ref_terms(case["g"])
                    from .. import compsem as CS

                    e = CS.equiv(O.rts(r.a), ref_a) or CS.equiv(O.rts(r.a) + O.rts(r.g), ref_a + ref_g)
                    if e is not None:
                        viol = {"sub": sub, "what": "meaning changed by the file round trip (%s)" % e[0], "witness": O.ptjson(e[1])}
        except Exception as e:  # noqa
            viol = {"sub": sub, "what": "file round trip raised %s: %s" % (type(e).__name__, str(e)[:100])}
        finally:
            if os.path.exists(fn):
                os.remove(fn)
        out.append(("file:machine" if machine else "file:string", False, None, viol))
    return out
