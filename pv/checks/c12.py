"""C12 — optimisation over a contract returns the true optimum, None iff unbounded (E1, DESIGN.md 4/C12)."""
import itertools
from fractions import Fraction as F

from .. import grids
from .. import oracle as O
from ..build import plist, pvars

ID = "C12"
LEVEL = "exploration"
NSLICES = 12
OBJ = [
    ("i", {"i": 1}), ("o", {"o": 1}), ("-i", {"i": -1}), ("2i + o", {"i": 2, "o": 1}), ("i - 2o", {"i": 1, "o": -2}),
    ("-2 i - o", {"i": -2, "o": -1}), ("o + p", {"o": 1, "p": 1}), ("p", {"p": 1}), ("i + o - p", {"i": 1, "o": 1, "p": -1}),
]
RULE = (
    "E1 exhaustive: contracts over inputs {i} outputs {o,p} whose assumptions (<=1 term over i) and guarantees (<=2 terms "
    "over i,o[,p]) range over small-integer grids K={-2..2}/{-1,0,1}, B={-1,0,1,2}, so that infeasible, bounded and "
    "unbounded systems all occur; x 9 objectives with <=3 coefficients from {-2,-1,1,2} (one over a variable absent from "
    "the constraints) x {maximize, minimize}; plus get_variable_bounds for i, o, p. g2/g3: 2-3-term guarantee lists, dense: "
    "all 10626 4-row systems from the 24 sign patterns of (2,2,1)-type rows over i,o,p (where HiGHS presolve misreports "
    "unbounded problems), p5: 5-variable contracts (one 1/%d slice of these in quick, complete in thorough). Oracle: exact rational LP (z3 Optimize on "
    "the concrete constraints): infeasible => ValueError, unbounded => None, else |value - optimum| <= 1e-6|optimum| + 1e-9 (relative, "
    "as stated). disc: contradictions in a component disconnected from the objective; scaled: optima such as 1/300; seq: look-alike "
    "contracts (equal to 4 significant digits) optimised one after the other in one process. "
    "Non-trivial = feasible constraint set with at least two constraints." % NSLICES
)
REQUIRED = ["value", "None", "ValueError", "bounds"]


def _all():
    A = grids.terms(["i"], [-1, 1], [0, 1])
    G = grids.terms(["i", "o"], [-2, -1, 0, 1, 2], [-1, 0, 2])
    for a in grids.lists_upto(A, 1):
        for g in grids.lists_upto(G, 1):
            yield {"fam": "core", "a": a, "g": g}
    G2 = [t for t in grids.terms(["i", "o"], [-1, 0, 1, 2], [-1, 0, 2])]
    for a in grids.lists_upto(A, 1):
        for g in grids.lists_upto(G2, 2, minlen=2):
            yield {"fam": "g2", "a": a, "g": g}
    G3 = grids.terms(["i", "o"], [-1, 0, 1], [0, 1])
    for g in grids.lists_upto(G3, 3, minlen=3):
        yield {"fam": "g3", "a": [], "g": g}
    # dense 3-variable systems: the shape on which HiGHS' presolve answers "infeasible" for unbounded problems
    pool = []
    for pos in range(3):
        for sg in itertools.product([1, -1], repeat=3):
            v = [2, 2, 2]
            v[pos] = 1
            pool.append({n: a * b for n, a, b in zip("iop", v, sg)})
    for rows in itertools.combinations(pool, 4):
        yield {"fam": "dense", "a": [], "g": [[r, b] for r, b in zip(rows, (0, 0, -2, 1))]}
    # contradiction in a component that shares no variable with most objectives; small-magnitude optima with long decimals
    for g in ([[{"i": -1}, -1], [{"o": 1}, 3]], [[{"i": -1}, -1], [{"o": 1, "p": 1}, 3], [{"p": -1}, 0]], [[{"p": 1}, 0], [{"p": -1}, -1], [{"o": 1}, 2]]):
        yield {"fam": "disc", "a": [[{"i": 1}, 0]] if "i" in g[0][0] else [], "g": g}
    for vf in ([{}, -1], [{}, 1]):
        yield {"fam": "disc", "a": [], "g": [vf, [{"o": 1}, 5], [{"o": -1, "i": 1}, 0]]}
        yield {"fam": "disc", "a": [[{"i": 1}, 2]], "g": [[{"o": 1, "i": -1}, 0], vf]}
    for k in (300, 30, 7, 3000):
        yield {"fam": "scaled", "a": [[{"i": -1}, 0]], "g": [[{"o": k}, 1], [{"o": -k, "i": 7}, 0], [{"p": 3, "o": -1}, 0], [{"p": -1}, 1]]}
        yield {"fam": "scaled", "a": [], "g": [[{"o": k, "i": 1}, 1], [{"i": -1}, 0], [{"o": -1}, 0], [{"p": 1, "o": -7}, 0], [{"p": -1}, 0]]}
    for a, b in ((10001, 10002), (1.23412, 1.23444), (100000, 100040)):
        yield {"fam": "seq", "seq": [{"a": [[{"i": 1}, a]], "g": [[{"o": 1, "i": -1}, 0], [{"p": 1}, 1]]}, {"a": [[{"i": 1}, b]], "g": [[{"o": 1, "i": -1}, 0], [{"p": 1}, 1]]}]}
        yield {"fam": "seq", "seq": [{"a": [], "g": [[{"o": 1, "i": -b}, 0], [{"i": 1}, 1], [{"p": 1}, 1]]}, {"a": [], "g": [[{"o": 1, "i": -a}, 0], [{"i": 1}, 1], [{"p": 1}, 1]]}]}
    G5 = [t for t in grids.terms(["i", "o", "p"], [-1, 0, 1], [1]) if len(t[0]) >= 2]
    for g in grids.lists_upto(G5, 3, minlen=2):
        yield {"fam": "p5", "a": [[{"i": -1}, 0]], "g": g + [[{"q": 1, "o": -1}, 0], [{"r": -1, "p": 1}, 2]], "five": True}


def cases(tier, seed):
    sl = seed % NSLICES
    k = 0
    for c in _all():
        if tier == "thorough" or c["fam"] in ("core", "disc", "scaled", "seq"):
            yield c
        else:
            k += 1
            if k % NSLICES == sl:
                yield c


def describe(tier, seed):
    return {"slice": None if tier == "thorough" else "%d of %d" % (seed % NSLICES, NSLICES)}


def _check(got, exc, ref, sub):
    kind, val = ref
    if exc is not None and not isinstance(exc, ValueError):
        return "escaped:" + type(exc).__name__, {"sub": sub, "what": "raised %s: %s" % (type(exc).__name__, str(exc)[:120])}
    if kind == "infeasible":
        if exc is None:
            return "returned", {"sub": sub, "what": "no behaviour satisfies the contract but optimize returned %r instead of raising ValueError" % (got,)}
        return "ValueError", None
    if exc is not None:
        return "ValueError", {"sub": sub, "what": "ValueError for a satisfiable contract (exact answer: %s %s)" % (kind, val)}
    if kind == "unbounded":
        if got is not None:
            return "value", {"sub": sub, "what": "objective is unbounded but optimize returned %r" % (got,)}
        return "None", None
    if got is None:
        return "None", {"sub": sub, "what": "optimum is %s but optimize returned None" % val}
    if abs(F(got) - val) > F(1, 10**6) * abs(val) + F(1, 10**9):
        return "value", {"sub": sub, "what": "optimize returned %r, exact optimum %s" % (got, val)}
    return "value", None


def run_case(case):
    from pacti.contracts import PolyhedralIoContract

    if case["fam"] == "seq":
        out = []
        for k, c in enumerate(case["seq"]):
            for r in run_case({"fam": "core", "a": c["a"], "g": c["g"]}):
                viol = r[3]
                if viol is not None:
                    viol = dict(viol, sub={"seq": k, "inner": viol["sub"]}, what="contract %d of a sequence of look-alike contracts: %s" % (k, viol["what"]))
                out.append((r[0], r[1], r[2], viol))
        return out

    outs = ["o", "p"] + (["q", "r"] if case.get("five") else [])
    c = PolyhedralIoContract(plist(case["a"]), plist(case["g"]), pvars(["i"]), pvars(outs), simplify=False)
    terms = O.rts(c.a) + O.rts(c.g)
    feas = O.feasible(terms)
    nt = feas and len(terms) >= 2
    out = []
    for s, obj in OBJ:
        for mx in (True, False):
            ref = O.opt(terms, obj, maximize=mx)
            got = exc = None
            try:
                got = c.optimize(s, maximize=mx)
            except Exception as e:  # noqa
                exc = e
            oc, viol = _check(got, exc, ref, {"obj": s, "max": mx})
            out.append((oc, nt, (oc, None if got is None else round(got, 9)), viol))
    # the zero objective: its optimum over a non-empty set is 0
    from pacti.iocontract import Var

    for name, f in (("string '0 i'", lambda mx: c.optimize("0 i", maximize=mx)), ("termlist {}", lambda mx: (c.a | c.g).optimize({}, maximize=mx)),
                    ("termlist {o: 0}", lambda mx: (c.a | c.g).optimize({Var("o"): 0.0}, maximize=mx))):
        for mx in (True, False):
            got = exc = None
            try:
                got = f(mx)
            except Exception as e:  # noqa
                exc = e
            oc, viol = _check(got, exc, ("opt", F(0)) if feas else ("infeasible", None), {"obj": "zero objective via " + name, "max": mx})
            out.append((oc, nt, None, viol))
    for v in ["i", "o", "p"]:
        lo = O.opt(terms, {v: 1}, maximize=False)
        hi = O.opt(terms, {v: 1}, maximize=True)
        try:
            mn, mxv = c.get_variable_bounds(v)
            exc = None
        except Exception as e:  # noqa
            exc = e
            mn = mxv = None
        if not feas:
            viol = None if isinstance(exc, ValueError) else {"sub": {"bounds": v}, "what": "bounds of an unsatisfiable contract did not raise ValueError"}
            out.append(("ValueError", False, None, viol))
            continue
        _, v1 = _check(mn, exc, lo, {"bounds": v, "side": "min"})
        _, v2 = _check(mxv, exc, hi, {"bounds": v, "side": "max"})
        out.append(("bounds", nt, None, v1 or v2))
    return out
