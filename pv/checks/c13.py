"""C13 — operations are pure: operands unchanged, results independent of history (E3, model checking).

Explicit-state exploration of sessions.  A session state is (H, P): H = fingerprint of every module-level and
class-level object of the pacti modules including the pyparsing grammar graph, P = fingerprint (with identity
partition) of the pool of live contracts / term lists / option lists.  Transitions are the operations of the session
alphabet applied to every admissible argument tuple of the pool; results are fed back into the pool (layers =
construction depth).  Every transition is checked for: state unchanged, result identity-disjoint from pool and
globals, result equal (bit for bit) to the same call in a process forked from a pristine interpreter.
"""
import collections
import itertools
import multiprocessing as mp
import os
import sys
import time
import traceback

ID = "C13"
LEVEL = "model_checking"
NO_REPRODUCE = True  # a violation belongs to a long session; it is re-established by re-running the check
RULE = (
    "E3 explicit-state session exploration on the real library. Alphabet: compose, compose_tactics, quotient, "
    "quotient_tactics, merge, refines (contracts and lists), rename_variable, rename_variables, copy, list simplify, "
    "elim_vars_by_refining/relaxing, optimize, get_variable_bounds, to_machine_dict, from_dict, to_dict, from_strings, parse, "
    "is_empty, contains_behavior, evaluate, list union/difference, compound-contract merge / == / membership / to_dict, file "
    "write+read in both representations; argument tuples = every admissible tuple from a typed pool (contracts, term lists, "
    "tactic-order lists, keep lists, strings, dictionaries) seeded with 8 contracts, 6 lists (incl. look-alike pairs that differ only "
    "beyond the 4th significant digit, the precision of the printed form), 3 order lists, 3 keep lists; "
    "results are added to the pool (construction depth: quick 2 layers with <=6 new contracts/lists per layer, thorough 4 "
    "layers with <=16), so later calls run on objects produced by earlier ones. Each worker process is one long session "
    "(history) executing its shard of the transitions in order, followed by a pair-adjacency history in which every ordered "
    "pair of operation kinds is adjacent. Per transition: (1) pool and hidden-state fingerprints unchanged; (2) mutable "
    "nodes of the result identity-disjoint from pool and globals, and mutating the result leaves the pool fingerprint "
    "unchanged; (3) result equal to the same call executed in a process forked from a pristine warmed-up interpreter; (4) an "
    "exception leaves the state unchanged and is raised identically in the pristine process. states = distinct (H,P) "
    "fingerprints reached, transitions = calls executed. When every transition leaves H and every pool member unchanged "
    "(closed_hidden_states = 1, hidden_state_changes = 0) the reachable hidden state is the initial one and by induction every history over "
    "the explored pool is covered; a change of H alone (an internal cache, say) is not a violation - it is counted, and the verdict then "
    "rests on the comparison of every later call with the pristine process."
)
ASSUMPTIONS = ["numpy/scipy/sympy/pyparsing internal caches are observed only behaviourally (comparison with the pristine process)"]


# ------------------------------------------------------------------ the session alphabet
def do_call(op, a):  # noqa: C901
    from pacti.contracts import PolyhedralIoContract
    from pacti.iocontract import Var
    from pacti.terms.polyhedra.serializer import polyhedral_termlist_from_string

    if op == "compose":
        return a[0].compose(a[1], a[2], a[3])
    if op == "compose_tactics":
        return a[0].compose_tactics(a[1], a[2], True, a[3])[0]
    if op == "quotient":
        return a[0].quotient(a[1])
    if op == "quotient_tactics":
        return a[0].quotient_tactics(a[1], None, True, a[2])[0]
    if op == "merge":
        return a[0].merge(a[1])
    if op == "refines":
        return a[0].refines(a[1])
    if op == "l_refines":
        return a[0].refines(a[1])
    if op == "rename":
        return a[0].rename_variable(Var(a[1]), Var(a[2]))
    if op == "rename_variables":
        return a[0].rename_variables([tuple(m) for m in a[1]])
    if op == "copy":
        return a[0].copy()
    if op == "l_simplify":
        return a[0].simplify(a[1])
    if op == "elim_refine":
        return a[0].elim_vars_by_refining(a[1], a[2], a[3], a[4])[0]
    if op == "elim_relax":
        return a[0].elim_vars_by_relaxing(a[1], a[2], a[3], a[4])[0]
    if op == "optimize":
        return a[0].optimize(a[1], a[2])
    if op == "bounds":
        return list(a[0].get_variable_bounds(a[1]))
    if op == "to_machine_dict":
        return a[0].to_machine_dict()
    if op == "from_dict":
        return PolyhedralIoContract.from_dict(a[0])
    if op == "to_dict":
        return a[0].to_dict()
    if op == "from_strings":
        d = a[0]
        return PolyhedralIoContract.from_strings(d["assumptions"], d["guarantees"], d["input_vars"], d["output_vars"])
    if op == "parse":
        return polyhedral_termlist_from_string(a[0])
    if op == "is_empty":
        return a[0].is_empty()
    if op == "l_or":
        return a[0] | a[1]
    if op == "l_sub":
        return a[0] - a[1]
    if op == "contains":
        return a[0].contains_behavior(a[1])
    if op == "evaluate":
        return a[0].evaluate(a[1])
    if op == "cc_merge":
        return a[0].merge(a[1])
    if op == "cc_eq":
        return a[0] == a[1]
    if op == "cc_contains":
        return a[0].a.contains_behavior(a[1])
    if op == "cc_to_dict":
        return a[0].to_dict()
    if op == "write_read":
        import os
        import tempfile

        from pacti.utils.fileio import read_contracts_from_file, write_contracts_to_file

        fd, fn = tempfile.mkstemp(prefix="pvc13_", suffix=".json")
        os.close(fd)
        try:
            write_contracts_to_file([a[0]], ["c"], fn, machine_representation=a[1])
            cs, names = read_contracts_from_file(fn)
            return [cs[0], names]
        finally:
            os.remove(fn)
    raise ValueError("unknown op " + op)


OPKINDS = ["compose", "compose_tactics", "quotient", "quotient_tactics", "merge", "refines", "l_refines", "rename", "rename_variables", "copy",
           "l_simplify", "elim_refine", "elim_relax", "optimize", "bounds", "to_machine_dict", "from_dict", "to_dict", "from_strings", "parse",
           "is_empty", "l_or", "l_sub", "contains", "evaluate", "cc_merge", "cc_eq", "cc_contains", "cc_to_dict", "write_read"]


def seed_pool():
    from pacti.contracts import PolyhedralIoContract as C
    from pacti.iocontract import Var
    from ..build import plist

    P = collections.OrderedDict()
    P["C:prod"] = C.from_strings(["i <= 2", "-i <= 0"], ["o - i <= 1", "-o + 2i <= 0"], ["i"], ["o"])
    P["C:cons"] = C.from_strings(["o <= 5"], ["p - 2o <= 0", "|p| <= 20"], ["o"], ["p"])
    P["C:alt"] = C.from_strings(["i <= 1"], ["o - i <= 3", "o <= 7"], ["i"], ["o"])
    P["C:top"] = C.from_strings(["i <= 1", "-i <= 0"], ["p <= 9", "-p <= 4"], ["i"], ["p"])
    P["C:shr"] = C.from_strings([], ["q - i <= 0", "q + i <= 4"], ["i"], ["q"])
    P["C:fb"] = C.from_strings([], ["o - p <= 1"], ["p"], ["o"])
    # look-alikes: pairs of pool members that differ only beyond the 4th significant digit (the precision of the printed form)
    P["C:nd1"] = C.from_strings(["i <= 10001"], ["o - 1.23412i <= 0", "o <= 20000"], ["i"], ["o"])
    P["C:nd2"] = C.from_strings(["i <= 10002"], ["o - 1.23444i <= 0", "o <= 20000"], ["i"], ["o"])
    P["L:nd1"] = plist([[{"x": 1}, 10.00390625], [{"x": -1, "y": 1}, 0]])
    P["L:nd2"] = plist([[{"x": 1}, 10.0], [{"x": -1, "y": 1}, 0]])
    P["L:red"] = plist([[{"x": 1}, 1], [{"x": 1}, 2], [{"x": 1, "y": 1}, 3], [{"y": -1}, 0]])
    P["L:ctx"] = plist([[{"y": 1}, 1], [{"y": -1, "z": 1}, 0]])
    P["L:xz"] = plist([[{"x": 1, "z": -1}, 0], [{"z": 1}, 2]])
    P["L:emp"] = plist([])
    P["O:def"] = [1, 2, 3, 4, 5]
    P["O:rev"] = [5, 4, 3, 2, 1]
    P["O:two"] = [2, 4]
    P["K:none"] = []
    P["K:o"] = ["o"]
    P["K:q"] = ["q"]
    P["KV:y"] = [Var("y")]
    P["KV:yz"] = [Var("y"), Var("z")]
    P["M:swap"] = [["i", "t"], ["o", "i"], ["t", "o"]]
    P["M:fresh"] = [["i", "u"], ["o", "w"]]
    P["S:e1"] = "2(x + 1) - |y - 3x| >= -4"
    P["S:e2"] = "x - y = 2"
    P["S:bad"] = "x + + y <= 1"
    P["S:obj"] = "2i - o"
    from pacti.contracts import PolyhedralIoContractCompound as CC

    P["CC:a"] = CC.from_strings([["i <= 1"], ["i >= 2", "i <= 3"]], [["o <= 1"], ["o >= 2", "o <= 5"]], ["i"], ["o"])
    P["CC:b"] = CC.from_strings([["i <= 0"], ["i >= 1", "i <= 2"]], [["o <= 4"]], ["i"], ["o"])
    P["BH:xyz"] = {Var("x"): 0.5, Var("y"): 1.0, Var("z"): 2.0}
    P["BH:i"] = {Var("i"): 2.5}
    P["D:mach"] = P["C:prod"].to_machine_dict()
    P["D:str"] = {"input_vars": ["i"], "output_vars": ["o"], "assumptions": ["|i| <= 2"], "guarantees": ["o <= 3i + 1", "o >= 0"]}
    return P


def by_type(pool, prefix):
    return [n for n in pool if n.startswith(prefix + ":")]


def transitions(pool, fresh_names, layer):
    """every admissible (op, argument names) over the pool; from layer 1 on, at least one argument must be new"""
    Cs, Ls, Os, Ks, KVs = by_type(pool, "C"), by_type(pool, "L"), by_type(pool, "O"), by_type(pool, "K"), by_type(pool, "KV")
    Ms, Ss, Ds = by_type(pool, "M"), by_type(pool, "S"), by_type(pool, "D")
    T = []
    full = layer == 0
    for c1, c2 in itertools.product(Cs, repeat=2):
        for k in (Ks if full else Ks[:1]):
            for s in (True, False) if full else (True,):
                T.append(("compose", (c1, c2, k, "B:" + str(s))))
        for o in (Os if full else Os[:1]):
            T.append(("compose_tactics", (c1, c2, Ks[0], o)))
            T.append(("quotient_tactics", (c1, c2, o)))
        T.append(("quotient", (c1, c2)))
        T.append(("merge", (c1, c2)))
        T.append(("refines", (c1, c2)))
    for c in Cs:
        for s, t in (("i", "z9"), ("o", "i"), ("i", "i"), ("nope", "z9"), ("o", "p"), ("p", "o")):
            T.append(("rename", (c, "X:" + s, "X:" + t)))
        for m in Ms:
            T.append(("rename_variables", (c, m)))
        T.append(("copy", (c,)))
        for e in ("S:obj", "X:o", "X:i + p"):
            for mx in (True, False):
                T.append(("optimize", (c, e, "B:" + str(mx))))
        T.append(("bounds", (c, "X:o")))
        T.append(("to_machine_dict", (c,)))
        T.append(("to_dict", (c,)))
    for l1, l2 in itertools.product(Ls, repeat=2):
        T.append(("l_refines", (l1, l2)))
        T.append(("l_simplify", (l1, l2)))
        T.append(("l_or", (l1, l2)))
        T.append(("l_sub", (l1, l2)))
        for kv in KVs:
            for s in (True, False) if full else (False,):
                for o in (Os if full else Os[:2]):
                    T.append(("elim_refine", (l1, l2, kv, "B:" + str(s), o)))
                    T.append(("elim_relax", (l1, l2, kv, "B:" + str(s), o)))
    for l1 in Ls:
        T.append(("is_empty", (l1,)))
        T.append(("contains", (l1, "BH:xyz")))
        T.append(("evaluate", (l1, "BH:xyz")))
    CCs = by_type(pool, "CC")
    for c1, c2 in itertools.product(CCs, repeat=2):
        T.append(("cc_merge", (c1, c2)))
        T.append(("cc_eq", (c1, c2)))
    for c1 in CCs:
        T.append(("cc_contains", (c1, "BH:i")))
        T.append(("cc_to_dict", (c1,)))
    for c in Cs:
        for mrep in (True, False):
            T.append(("write_read", (c, "B:" + str(mrep))))
    for d in Ds:
        T.append(("from_strings" if d.startswith("D:str") else "from_dict", (d,)))
    for s in Ss:
        if s != "S:obj":
            T.append(("parse", (s,)))
    if fresh_names is not None:
        fr = set(fresh_names)
        T = [t for t in T if any(a in fr for a in t[1])]
    return T


def arg_value(pool, name):
    if name.startswith("B:"):
        return name == "B:True"
    if name.startswith("X:"):
        return name[2:]
    return pool[name]


# ------------------------------------------------------------------ one worker = one long session
def warmup():
    """touch every lazily initialised path once (grammar streamlining, regex compilation, sympy/scipy imports)"""
    from pacti.terms.polyhedra.serializer import polyhedral_termlist_from_string

    # every production of the grammar once: exponents with both signs, '.5', '2.', parenthesised arithmetic with all four
    # operators, '*', nested parentheses, absolute values with and without coefficient, chains, both equality spellings
    for text in ["1e+04 x - 2.5E-3 y <= .5e1", "(1/2)x + (2*3 - 1) y >= -(4 + 2.)", "2*(x - 3(y + 1)) + (z) = 1", "x == y", "a <= b <= c",
                 "a >= 2|b - c| + |d| >= -1", "+ 3 |x| + (|y| - z) <= 7e0", "2(|x| + y) - (x - (y)) <= 1E1", "x <= 1e", "-|x| <= 1", "x + + y <= 1"]:
        try:
            polyhedral_termlist_from_string(text)
        except Exception:  # noqa
            pass
    P = seed_pool()
    for op, args in [("parse", ("S:e1",)), ("parse", ("S:e2",)), ("parse", ("S:bad",)), ("compose", ("C:prod", "C:cons", "K:none", "B:True")),
                     ("quotient", ("C:top", "C:prod")), ("optimize", ("C:prod", "S:obj", "B:True")), ("to_dict", ("C:cons",)),
                     ("elim_refine", ("L:red", "L:ctx", "KV:y", "B:True", "O:rev")), ("elim_relax", ("L:xz", "L:ctx", "KV:yz", "B:False", "O:def")),
                     ("from_strings", ("D:str",))]:
        try:
            do_call(op, [arg_value(P, a) for a in args])
        except Exception:  # noqa
            pass


def mutate_result(res):
    """scribble over every mutable node reachable from a result"""
    from .. import session as S

    ids, w = S.mutable_ids(res)
    for o in w.keep:
        if id(o) in ids:
            try:
                if isinstance(o, list):
                    o.clear()
                elif isinstance(o, dict):
                    o.clear()
                elif hasattr(o, "__dict__"):
                    for k in list(vars(o)):
                        v = vars(o)[k]
                        if isinstance(v, float):
                            setattr(o, k, 12345.678)
            except Exception:  # noqa
                pass


def _worker(w, nw, tier, conn):
    from .. import loader

    out = {"transitions": 0, "states": set(), "violations": [], "outcomes": collections.Counter(), "samples": [], "error": None,
           "zygote_forks": 0, "distinct_results": set(), "pairs": 0}
    try:
        from .. import session as S

        warmup()
        zy = S.Zygote(do_call)
        pool = seed_pool()
        h0 = S.fingerprint_hidden()
        hidden_w = S.hidden_state_walker()
        hidden_mut = set(hidden_w.mut)
        state = {"h": h0}

        def step(op, argnames, tag):
            args = [arg_value(pool, a) for a in argnames]
            cargs = tuple(S.canon(a) for a in args)
            p_before, wp = S.fingerprint_pool(pool)
            try:
                res = do_call(op, args)
                exc = None
            except Exception as e:  # noqa
                res, exc = None, e
            p_after, wp2 = S.fingerprint_pool(pool)
            hw = S.hidden_state_walker()
            h_after = hw.digest()
            out["transitions"] += 1
            out["states"].add((h_after, p_after))
            sub = {"op": op, "args": list(argnames), "phase": tag, "worker": w, "step": out["transitions"]}
            oc = "returned" if exc is None else "raised:" + type(exc).__name__
            out["outcomes"][oc] += 1
            if p_after != p_before:
                changed = [n for n in pool if S.fingerprint_pool({n: pool[n]})[0] != state["members"].get(n)]
                out["violations"].append({"sub": sub, "what": "an operand / pool member was modified by the call: %s" % changed})
                state["members"] = {n: S.fingerprint_pool({n: pool[n]})[0] for n in pool}
            if h_after != state["h"]:
                # internal state (e.g. a cache) is not forbidden by the property; it only ends the closure argument: from here on the
                # verdict rests on the comparison of every later call with the pristine process
                out["hidden_changes"] = out.get("hidden_changes", 0) + 1
                if len(out.setdefault("hidden_change_ops", [])) < 5:
                    out["hidden_change_ops"].append(op)
                state["h"] = h_after
            got = S.canon(res) if exc is None else ("EXC", type(exc).__name__)
            out["distinct_results"].add(hash(got))
            if exc is None:
                rm, rw = S.mutable_ids(res)
                shared = rm & wp2.mut
                if shared:
                    out["violations"].append({"sub": sub, "what": "the result shares %d mutable object(s) with its operands" % len(shared)})
            fresh = zy.call(op, cargs)
            if fresh != got:
                out["violations"].append({"sub": sub, "what": "result differs from the same call in a pristine interpreter", "here": repr(got)[:300], "fresh": repr(fresh)[:300]})
            if exc is None and not isinstance(res, (bool, int, float, str, type(None))):
                mutate_result(res)
                p3, _ = S.fingerprint_pool(pool)
                if p3 != p_after:
                    out["violations"].append({"sub": sub, "what": "mutating the returned object changed an operand (aliasing)"})
                    state["members"] = {n: S.fingerprint_pool({n: pool[n]})[0] for n in pool}
            if len(out["samples"]) < 3 and w == 0:
                out["samples"].append({"op": op, "args": list(argnames), "outcome": oc})
            return got

        state["members"] = {n: S.fingerprint_pool({n: pool[n]})[0] for n in pool}
        fresh_names = None
        layer = 0
        while True:
            msg = conn.recv()
            if msg[0] == "layer":
                for name, cval in msg[1]:
                    pool[name] = S.rebuild(cval)
                    state["members"][name] = S.fingerprint_pool({name: pool[name]})[0]
                fresh_names = [n for n, _ in msg[1]] if msg[1] or layer else None
                T = transitions(pool, fresh_names if layer else None, layer)
                results = []
                for idx, (op, argnames) in enumerate(T):
                    if idx % nw != w:
                        continue
                    got = step(op, argnames, "layer%d" % layer)
                    if isinstance(got, tuple) and got and got[0] in ("C", "L"):
                        results.append(got)
                conn.send(("done", len(T), results))
                layer += 1
            elif msg[0] == "pairs":
                # pair-adjacency history: every ordered pair of operation kinds adjacent at least once
                reps = {}
                for op, argnames in transitions(pool, None, 0):
                    reps.setdefault(op, argnames)
                kinds = [k for k in OPKINDS if k in reps]
                for a_i, a in enumerate(kinds):
                    if a_i % nw != w:
                        continue
                    for b in kinds:
                        step(a, reps[a], "pairs")
                        step(b, reps[b], "pairs")
                        out["pairs"] += 1
                conn.send(("done", 0, []))
            else:
                break
        out["zygote_forks"] = zy.forks
        zy.close()
    except BaseException:  # noqa
        out["error"] = traceback.format_exc()
    out["states"] = list(out["states"])
    out["distinct_results"] = len(out["distinct_results"])
    conn.send(("final", out))
    conn.close()


def explore(tier, seed):
    from .. import engine

    t0 = time.time()
    nw = engine.nworkers()
    ctx = mp.get_context("fork")
    procs = []
    for w in range(nw):
        a, b = ctx.Pipe()
        p = ctx.Process(target=_worker, args=(w, nw, tier, b))
        p.start()
        procs.append((p, a))
    layers = 2 if tier == "quick" else 4
    cap = 6 if tier == "quick" else 16
    new = []
    known = set()
    space = 0
    for layer in range(layers):
        for p, c in procs:
            c.send(("layer", new))
        results = []
        for p, c in procs:
            m = c.recv()
            if m[0] == "final":  # worker crashed
                sys.stderr.write("BROKEN: C13 worker failed:\n%s\n" % m[1].get("error"))
                sys.exit(2)
            space += m[1] if p is procs[0][0] else 0
            results.extend(m[2])
        # choose the new pool members for the next layer: smallest distinct canonical forms, contracts and lists
        cand = sorted({r for r in results if r not in known}, key=lambda r: (len(repr(r)), repr(r)))
        rot = seed % max(1, len(cand)) if cand else 0
        cand = cand[rot:] + cand[:rot]
        new = []
        nc = nl = 0
        for r in cand:
            if r[0] == "C" and nc < cap:
                nc += 1
                new.append(("C:n%d_%d" % (layer, nc), r))
            elif r[0] == "L" and nl < cap and r[1]:
                nl += 1
                new.append(("L:n%d_%d" % (layer, nl), r))
            known.add(r)
    for p, c in procs:
        c.send(("pairs",))
    for p, c in procs:
        c.recv()
    for p, c in procs:
        c.send(("stop",))
    outs = []
    for p, c in procs:
        m = c.recv()
        outs.append(m[1])
        p.join()
    errs = [o["error"] for o in outs if o.get("error")]
    if errs:
        sys.stderr.write("BROKEN: C13 worker failed:\n%s\n" % errs[0])
        sys.exit(2)
    states = set()
    for o in outs:
        states |= {tuple(s) for s in o["states"]}
    m = {
        "evaluations": sum(o["transitions"] for o in outs),
        "cases": sum(o["transitions"] for o in outs),
        "space": sum(o["transitions"] for o in outs),
        "nontrivial": sum(v for o in outs for k, v in o["outcomes"].items()),
        "dups": 0,
        "outcomes": collections.Counter(),
        "extra": collections.Counter(),
        "samples": [],
        "violations": [],
        "nviol": 0,
        "capped": False,
        "lp": 0,
        "oracle_queries": 0,
        "workers": nw,
        "states": len(states),
        "transitions": sum(o["transitions"] for o in outs),
        "traces_validated_against_impl": sum(o["zygote_forks"] for o in outs),
        "distinct_results": sum(o["distinct_results"] for o in outs),
        "covered_below_idx": 0,
        "wall_s": time.time() - t0,
    }
    for o in outs:
        m["outcomes"].update(o["outcomes"])
        m["samples"].extend(o["samples"])
        for v in o["violations"]:
            m["violations"].append({"case": {"session": "C13", "op": v["sub"]["op"], "args": v["sub"]["args"]}, "violation": v})
        m["extra"]["pair_adjacencies"] += o["pairs"]
        m["extra"]["hidden_state_changes"] += o.get("hidden_changes", 0)
        m["extra"]["pristine_process_calls"] += o["zygote_forks"]
    m["nviol"] = len(m["violations"])
    m["covered_below_idx"] = m["space"]
    m["extra"]["layers"] = layers
    m["extra"]["closed_hidden_states"] = len({s[0] for s in states})
    return m


def run_case(case):
    """replay of one recorded transition with plain calls from the seed pool (used by pv.replay / reproduce)"""
    from .. import session as S

    pool = seed_pool()
    names = case["args"]
    if any(n not in pool and not n.startswith(("B:", "X:")) for n in names):
        return []  # argument produced by an earlier layer: replay through the full check
    args = [arg_value(pool, a) for a in names]
    p0, _ = S.fingerprint_pool(pool)
    h0 = S.fingerprint_hidden()
    try:
        res = do_call(case["op"], args)
    except Exception as e:  # noqa
        res = e
    out = []
    if S.fingerprint_pool(pool)[0] != p0:
        out.append(("modified", True, None, {"sub": {"op": case["op"], "args": names}, "what": "an operand was modified"}))
    if S.fingerprint_hidden() != h0:
        out.append(("hidden", True, None, {"sub": {"op": case["op"], "args": names}, "what": "module state changed"}))
    return out


def describe(tier, seed):
    return {"op_kinds": OPKINDS}
