"""C18 — plot vertices are exactly the corners of the plotted slice (E1, DESIGN.md 4/C18)."""
import itertools
import math
from fractions import Fraction as F

from .. import grids
from .. import oracle as O
from ..build import plist

ID = "C18"
LEVEL = "exploration"
NSLICES = 8
LIMS = [((-5, 5), (-5, 5)), ((-2, 2), (-2, 2)), ((0, 3), (-1, 1)), ((-1, 1), (0, 3)), ((-3, -1), (0, 3)), ((-3, 0), (-2, -1))]
RULE = (
    "E1 exhaustive: constraint lists L<=2 over T({u,v},{-2..2},{-1,0,1,2}) (complete in quick for <=1 term, 1/%d slice of the "
    "2-term lists; thorough complete, plus all 142880 three-term lists) and 3-4 variable lists with every integer assignment in [-2,2] to the non-plotted "
    "variables; x 6 axis-limit pairs (two windows entirely at non-positive coordinates) x both roles of the plotted pair (exercises the column swap); plus unassigned variable, "
    "value given for a plotted variable, empty slices, slices degenerating to a segment or a point. Oracle: exact rational "
    "vertex enumeration of the 2-D slice (pairwise line intersections satisfying all constraints): every returned point "
    "satisfies all constraints and equals a reference corner within 1e-6, every reference corner is returned, the order is the "
    "counter-clockwise cyclic order, ValueError iff the slice is empty or a needed value is missing. Non-trivial = a "
    "non-empty slice cut by at least one constraint (not only the limits)." % NSLICES
)
REQUIRED = ["polygon", "degenerate", "ValueError:empty", "ValueError:missing", "swap-exercised"]


def _all():
    T = grids.terms(["u", "v"], [-2, -1, 0, 1, 2], [-1, 0, 1, 2])
    for L in grids.lists_upto(T, 1):
        for lim in LIMS:
            for roles in (("u", "v"), ("v", "u")):
                yield {"fam": "two", "L": L, "lims": lim, "xy": roles, "vals": {}}
    # degenerate slices: segment / point / empty
    for c in (0, 1, -1, 2):
        for v in grids.vectors(2, [-1, 0, 1, 2]):
            co = {n: k for n, k in zip(["u", "v"], v) if k}
            for extra in ([], [[{"u": 1}, 0]], [[{"u": 1}, 0], [{"u": -1}, 0]]):
                L = [[co, c], [{n: -k for n, k in co.items()}, -c]] + extra
                yield {"fam": "degenerate", "L": L, "lims": LIMS[1], "xy": ("u", "v"), "vals": {}}
                yield {"fam": "degenerate", "L": L, "lims": LIMS[2], "xy": ("v", "u"), "vals": {}}
            yield {"fam": "degenerate", "L": [[co, c], [{n: -k for n, k in co.items()}, -c - 1]], "lims": LIMS[0], "xy": ("u", "v"), "vals": {}}
    # three / four variables with assigned values
    T3 = [t for t in grids.terms(["u", "v", "w"], [-1, 0, 1, 2], [0, 1]) if "w" in t[0] and len(t[0]) >= 2]
    for L in grids.lists_upto(T3, 2, minlen=1):
        if len(L) == 2 and not (("u" in L[0][0]) != ("u" in L[1][0]) or ("v" in L[0][0]) != ("v" in L[1][0])):
            continue
        for w in (-2, -1, 0, 1, 2):
            yield {"fam": "three", "L": L, "lims": LIMS[1], "xy": ("u", "v"), "vals": {"w": w}}
        yield {"fam": "three", "L": L, "lims": LIMS[1], "xy": ("v", "u"), "vals": {}}  # w unassigned
        yield {"fam": "three", "L": L, "lims": LIMS[1], "xy": ("u", "w"), "vals": {"v": 1, "z": 3}}
        yield {"fam": "three", "L": L, "lims": LIMS[1], "xy": ("u", "v"), "vals": {"w": 0, "u": 1}}  # value for a plotted variable
    # constraints over fixed variables only: they decide emptiness through the substituted value, not through their raw constant
    for fixed in ([{"w": -1}, -1], [{"w": 1}, 2], [{"w": 1}, -1], [{"w": -2}, 1], [{"w": 1, "z": -1}, 1]):
        for w in (-2, 0, 1, 3):
            for base in ([[{"u": 1, "v": 2, "w": 1}, 6], [{"u": -3, "v": 1}, 2]], [[{"u": 1, "v": 1}, 1]]):
                vals = {"w": w}
                if "z" in fixed[0]:
                    vals["z"] = 1
                yield {"fam": "three", "L": base + [fixed], "lims": LIMS[0], "xy": ("u", "v"), "vals": vals}
                yield {"fam": "three", "L": [fixed] + base, "lims": LIMS[1], "xy": ("v", "u"), "vals": vals}
    for w, z in itertools.product((-2, 0, 1), repeat=2):
        yield {"fam": "four", "L": [[{"u": 1, "v": 1, "w": 1, "z": -1}, 1], [{"u": -1, "z": 1}, 1], [{"v": -2, "w": 1}, 2]], "lims": LIMS[0],
               "xy": ("u", "v"), "vals": {"w": w, "z": z}}
    for L in grids.lists_upto(T, 2, minlen=2):
        yield {"fam": "two2", "L": L, "lims": LIMS[1], "xy": ("u", "v"), "vals": {}}
        yield {"fam": "two2", "L": L, "lims": LIMS[3], "xy": ("v", "u"), "vals": {}}


def _deep():
    T = grids.terms(["u", "v"], [-2, -1, 0, 1, 2], [-1, 0, 1, 2])
    for k, L in enumerate(grids.lists_upto(T, 3, minlen=3)):
        yield {"fam": "two3", "L": L, "lims": LIMS[k % len(LIMS)], "xy": ("u", "v") if k % 2 else ("v", "u"), "vals": {}}


def cases(tier, seed):
    if tier == "thorough":
        for c in _deep():
            yield c
    sl = seed % NSLICES
    k = 0
    for c in grids.dedupe(_all()):
        if tier == "thorough" or c["fam"] != "two2":
            yield c
        else:
            k += 1
            if k % NSLICES == sl:
                yield c


def describe(tier, seed):
    return {"slice": None if tier == "thorough" else "two2 %d of %d" % (seed % NSLICES, NSLICES)}


def ref_vertices(case):
    """exact corners of the slice, or 'missing' / 'empty'"""
    xv, yv = case["xy"]
    vals = case["vals"]
    if xv in vals or yv in vals:
        return "missing"
    rows = []  # a*x + b*y <= c
    for co, c in case["L"]:
        a = b = F(0)
        k = F(c)
        for n, v in co.items():
            if n == xv:
                a += F(v)
            elif n == yv:
                b += F(v)
            elif n in vals:
                k -= F(v) * F(vals[n])
            else:
                return "missing"
        rows.append((a, b, k))
    (x0, x1), (y0, y1) = case["lims"]
    rows += [(F(1), F(0), F(x1)), (F(-1), F(0), F(-x0)), (F(0), F(1), F(y1)), (F(0), F(-1), F(-y0))]
    for a, b, k in rows:
        if a == 0 and b == 0 and k < 0:
            return "empty"
    rows = [r for r in rows if r[0] != 0 or r[1] != 0]
    pts = set()
    for (a1, b1, k1), (a2, b2, k2) in itertools.combinations(rows, 2):
        det = a1 * b2 - a2 * b1
        if det == 0:
            continue
        x = (k1 * b2 - k2 * b1) / det
        y = (a1 * k2 - a2 * k1) / det
        if all(a * x + b * y <= k for a, b, k in rows):
            pts.add((x, y))
    if not pts:
        return "empty"
    return sorted(pts), rows


def run_case(case):
    from pacti.iocontract import Var
    from pacti.utils.plots import constraints_to_vertices

    ref = ref_vertices(case)
    L = plist(case["L"])
    xv, yv = case["xy"]
    sub = "vertices"
    extra = {}
    first_vars = [v.name for t in L.terms for v in t.vars]
    if first_vars and yv in first_vars and (xv not in first_vars or first_vars.index(yv) < first_vars.index(xv)):
        extra["swap-exercised"] = 1
    try:
        xs, ys = constraints_to_vertices(L, Var(xv), Var(yv), {Var(n): v for n, v in case["vals"].items()}, case["lims"][0], case["lims"][1])
    except ValueError:
        if isinstance(ref, str):
            return [("ValueError:" + ref, False, None, None, extra)]
        return [("ValueError", False, None, {"sub": sub, "what": "ValueError for a non-empty slice with %d corners" % len(ref[0])}, extra)]
    except Exception as e:  # noqa
        return [("escaped:" + type(e).__name__, False, None, {"sub": sub, "what": "raised %s: %s" % (type(e).__name__, str(e)[:100])}, extra)]
    if isinstance(ref, str):
        return [("returned", False, None, {"sub": sub, "what": "vertices returned although the slice is %s" % ref}, extra)]
    corners, rows = ref
    got = list(zip(xs, ys))
    viol = None
    tol = 1e-6
    idx = []
    for (x, y) in got:
        if not (math.isfinite(x) and math.isfinite(y)):
            viol = {"sub": sub, "what": "non-finite vertex returned"}
            break
        if any(float(a) * x + float(b) * y > float(k) + tol * (1 + abs(float(k))) for a, b, k in rows):
            viol = {"sub": sub, "what": "returned point (%r, %r) violates a constraint" % (x, y)}
            break
        hit = [i for i, (cx, cy) in enumerate(corners) if abs(float(cx) - x) <= tol and abs(float(cy) - y) <= tol]
        if not hit:
            viol = {"sub": sub, "what": "returned point (%r, %r) is not a corner of the slice" % (x, y), "corners": [[str(a), str(b)] for a, b in corners]}
            break
        idx.append(hit[0])
    if viol is None and set(idx) != set(range(len(corners))):
        miss = [corners[i] for i in range(len(corners)) if i not in idx]
        viol = {"sub": sub, "what": "corner %s of the slice is missing" % [str(v) for v in miss[0]], "returned": [list(p) for p in got]}
    kind = "polygon" if len(corners) >= 3 else "degenerate"
    if viol is None and len(corners) >= 3:
        # counter-clockwise cyclic order, exact on the reference corners
        seq = [i for k, i in enumerate(idx) if k == 0 or i != idx[k - 1]]
        if len(seq) > 1 and seq[0] == seq[-1]:
            seq = seq[:-1]
        if sorted(seq) != list(range(len(corners))):
            viol = {"sub": sub, "what": "a corner is listed more than once out of sequence", "returned": [list(p) for p in got]}
        else:
            n = len(seq)
            for k in range(n):
                p, q, r = corners[seq[k]], corners[seq[(k + 1) % n]], corners[seq[(k + 2) % n]]
                cross = (q[0] - p[0]) * (r[1] - q[1]) - (q[1] - p[1]) * (r[0] - q[0])
                if cross < 0:
                    viol = {"sub": sub, "what": "vertices are not listed in angular (counter-clockwise) order", "returned": [list(p) for p in got]}
                    break
    nontriv = any(True for co, c in case["L"])
    extra[kind] = 1
    return [("returned", nontriv, hash(tuple(idx)), viol, extra)]
