"""C19 — equality, hashing and copying of terms, lists and contracts are coherent (E1, DESIGN.md 4/C19)."""
import itertools
import struct

from .. import grids
from ..build import plist, pterm, pvars, contract

ID = "C19"
LEVEL = "exploration"
RULE = (
    "E1 exhaustive: base objects (terms over T({x,y},{-1,0,1,2},{-1,0,1}) incl. 0.0 / -0.0 / 1-ulp constants; all lists "
    "of <=2 panel terms; contracts over a panel of interfaces and contents; compound contracts) and EVERY single-field "
    "edit of each base object (one coefficient changed/removed/added, constant changed incl. -0.0 and 1 ulp, term "
    "order, term added/removed, the same term built with another insertion order of its variables, input or output list "
    "permuted / extended / replaced, the boundary variable moved between the input and the output list, assumptions or "
    "guarantees replaced), plus copy(), machine-dict round trip, parsing the same constraint with its terms in another "
    "order, and rename-there-and-back of each. All ordered pairs inside a family are compared: "
    "== must equal field-wise reference equality, must be symmetric, a == b must imply hash(a) == hash(b); all "
    "triples of each family are checked for transitivity; copies must be == and hash-equal. Non-trivial = a pair "
    "of distinct objects of one family (a base object and one of its edits, or two edits)."
)
REQUIRED = ["eq", "ne", "copy-eq", "hash-eq", "transitive"]


def _ulp(x, k=1):
    if x == 0:
        return 5e-324 * k
    b = struct.unpack("<q", struct.pack("<d", x))[0]
    return struct.unpack("<d", struct.pack("<q", b + k))[0]


# ------------------------------------------------------------------ families of JSON objects
def term_edits(t):
    co, c = t
    out = [[dict(co), c]]
    for n in list(co):
        out.append([{**co, n: co[n] + 1}, c])
        out.append([{**co, n: _ulp(co[n])}, c])
        d = dict(co)
        d.pop(n)
        if d:
            out.append([d, c])
    if len(co) >= 2:
        out.append([dict(reversed(list(co.items()))), c])  # equal term built with another insertion order
    if "w" not in co:
        out.append([{**co, "w": 1}, c])
    out.append([dict(co), c + 1])
    out.append([dict(co), _ulp(c)])
    out.append([dict(co), -c if c != 0 else -0.0])
    if c == 0:
        out.append([dict(co), 0.0])
    return out


def list_edits(L):
    out = [list(L)]
    for i in range(len(L)):
        for e in term_edits(L[i])[1:4]:
            out.append(L[:i] + [e] + L[i + 1:])
        out.append(L[:i] + L[i + 1:])
    if len(L) >= 2:
        out.append(list(reversed(L)))
    for i in range(len(L)):
        if len(L[i][0]) >= 2:
            out.append(L[:i] + [[dict(reversed(list(L[i][0].items()))), L[i][1]]] + L[i + 1:])
    out.append(L + [[{"x": 1, "y": 3}, 5]])
    out.append([[{"x": 1, "y": 3}, 5]] + L)
    return out


def contract_edits(c):
    out = [dict(c)]
    i, o = c["i"], c["o"]
    if len(i) >= 2:
        out.append({**c, "i": list(reversed(i))})
    if len(o) >= 2:
        out.append({**c, "o": list(reversed(o))})
    # move the boundary variable between the input list and the output list (same concatenation of both lists)
    amen = grids.lvars(c["a"])
    if i and i[-1] not in amen:
        out.append({**c, "i": i[:-1], "o": [i[-1]] + o})
    if o:
        out.append({**c, "i": i + [o[0]], "o": o[1:]})
    out.append({**c, "i": i + ["k"]})
    out.append({**c, "o": o + ["k"]})
    if o:
        out.append({**c, "o": o[:-1] + ["k"]}) if not any(o[-1] in t[0] for t in c["g"]) else None
    for e in list_edits(c["a"])[1:]:
        if grids.lvars(e) <= set(i):
            out.append({**c, "a": e})
    for e in list_edits(c["g"])[1:]:
        if grids.lvars(e) <= set(i) | set(o):
            out.append({**c, "g": e})
    return [x for x in out if x is not None]


def _all():
    T = grids.terms(["x", "y"], [-1, 0, 1, 2], [-1, 0, 1])
    for t in T:
        yield {"fam": "term", "base": t}
    panel = [[{"x": 1}, 0], [{"x": -1, "y": 2}, 1], [{"y": 1}, 0], [{"x": 1, "y": 1}, -1]]
    for L in grids.lists_upto(panel, 3, ordered=True):
        yield {"fam": "list", "base": L}
    gi = [[{"i": 1}, 2], [{"i": -1}, 0], [{"j": 1}, 1]]
    gg = [[{"i": 1, "o": -1}, 0], [{"o": 1}, 3], [{"p": 1, "j": -1}, 0], [{"o": 1, "p": 1}, 4]]
    for ivs, ovs in ((["i"], ["o"]), (["i", "j"], ["o", "p"]), (["i", "j"], ["o", "p", "q"])):
        for a in grids.lists_upto([t for t in gi if grids.tvars(t) <= set(ivs)], 2):
            for g in grids.lists_upto([t for t in gg if grids.tvars(t) <= set(ivs) | set(ovs)], 2):
                yield {"fam": "contract", "base": {"i": ivs, "o": ovs, "a": a, "g": g}}
    for k in range(4):
        yield {"fam": "compound", "k": k}


def _deep():
    T3 = grids.terms(["x", "y", "z"], [-2, -1, 0, 1, 2], [-1, 0, 1])
    for t in T3:
        yield {"fam": "term", "base": t, "deep": True}
    panel = [[{"x": 1}, 0], [{"x": -1, "y": 2}, 1], [{"y": 1}, 0], [{"x": 1, "y": 1}, -1], [{"x": 2, "z": -1}, 3], [{"z": 1}, 0.5]]
    for L in grids.lists_upto(panel, 3, ordered=True, minlen=2):
        yield {"fam": "list", "base": L, "deep": True}


def cases(tier, seed):
    if tier == "thorough":
        return itertools.chain(_all(), grids.dedupe(_deep()))
    return _all()


def _bits(x):
    return struct.pack("<d", float(x))


def ref_term(t):
    return (tuple(sorted((n, float(c)) for n, c in t[0].items() if c != 0)), float(t[1]))


def ref_list(L):
    return tuple(ref_term(t) for t in L)


def ref_contract(c):
    return (tuple(c["i"]), tuple(c["o"]), ref_list(c["a"]), ref_list(c["g"]))


def _pairs(objs, refs, fam, hashable=True):
    """all ordered pairs + triples of one family"""
    out = []
    n = len(objs)
    eqm = [[None] * n for _ in range(n)]
    for a in range(n):
        for b in range(n):
            exp = refs[a] == refs[b]
            try:
                got = objs[a] == objs[b]
            except Exception as e:  # noqa
                out.append(("escaped:" + type(e).__name__, False, None, {"sub": [fam, a, b], "what": "== raised %s" % type(e).__name__}))
                continue
            got = bool(got)
            eqm[a][b] = got
            viol = None
            if got != exp:
                viol = {"sub": [fam, a, b], "what": "== answered %r but the objects %s field-wise" % (got, "agree" if exp else "differ"),
                        "a": repr(refs[a]), "b": repr(refs[b])}
            elif got and hashable and hash(objs[a]) != hash(objs[b]):
                viol = {"sub": [fam, a, b, "hash"], "what": "equal objects with different hashes", "a": repr(refs[a]), "b": repr(refs[b])}
            try:
                ne = objs[a] != objs[b]
                if viol is None and bool(ne) == got:
                    viol = {"sub": [fam, a, b, "ne"], "what": "!= is not the negation of =="}
            except Exception:  # noqa
                pass
            extra = {"hash-eq": 1} if (got and hashable and a != b) else None
            out.append(("eq" if got else "ne", a != b, None, viol, extra))
    for a in range(n):
        for b in range(n):
            if eqm[a][b] is not None and eqm[b][a] is not None and eqm[a][b] != eqm[b][a]:
                out.append(("asym", True, None, {"sub": [fam, a, b, "sym"], "what": "== is not symmetric"}))
    bad = None
    for a, b, c in itertools.product(range(n), repeat=3):
        if eqm[a][b] and eqm[b][c] and eqm[a][c] is False:
            bad = {"sub": [fam, a, b, c, "trans"], "what": "== is not transitive"}
            break
    out.append(("transitive", n >= 3, None, bad, {"transitive": 1}))
    return out


def _copies(obj, mk, fam, hashable=True):
    out = []
    for name, f in mk:
        try:
            c = f(obj)
        except Exception as e:  # noqa
            out.append(("escaped:" + type(e).__name__, False, None, {"sub": [fam, name], "what": "%s raised %s" % (name, type(e).__name__)}))
            continue
        viol = None
        if not (c == obj) or not (obj == c):
            viol = {"sub": [fam, name], "what": "%s is not == to its original" % name}
        elif hashable and hash(c) != hash(obj):
            viol = {"sub": [fam, name, "hash"], "what": "%s hashes differently from its original" % name}
        elif c is obj:
            viol = {"sub": [fam, name, "identity"], "what": "%s returned the original object" % name}
        out.append(("copy-eq", True, None, viol, {"copy-eq": 1}))
    return out


def run_case(case):
    from pacti.contracts import PolyhedralIoContract, PolyhedralIoContractCompound

    fam = case["fam"]
    if fam == "term":
        js = term_edits(case["base"])
        objs = [pterm(t) for t in js]
        out = _pairs(objs, [ref_term(t) for t in js], fam)
        out += _copies(objs[0], [("copy()", lambda t: t.copy())], fam)
        # term-level renaming (merging and cancelling coefficients) must yield a normal term: == and hash-equal to its copy and to
        # the same term built directly
        from pacti.iocontract import Var as _V
        base = case["base"]
        names = sorted(base[0])
        for src in names:
            for tgt in [n for n in ("x", "y", "w") if n != src]:
                for obj_j in (base, [{**base[0], tgt: -base[0][src]}, base[1]]):
                    t = pterm(obj_j)
                    r = t.rename_variable(_V(src), _V(tgt))
                    d = dict(obj_j[0])
                    d[tgt] = d.get(tgt, 0) + d.pop(src)
                    direct = pterm([{k: v for k, v in d.items() if v != 0}, obj_j[1]])
                    viol = None
                    if not (r == r.copy()) or hash(r) != hash(r.copy()):
                        viol = {"sub": [fam, "rename", src, tgt], "what": "a renamed term is not == / hash-equal to its own copy"}
                    elif not (r == direct) or hash(r) != hash(direct):
                        viol = {"sub": [fam, "rename", src, tgt, "direct"], "what": "a renamed term differs from the same term built directly (%s vs %s)" % (r, direct)}
                    out.append(("path-eq", True, None, viol, {"hash-eq": 1}))
        return out
    if fam == "list":
        js = list_edits(case["base"])
        objs = [plist(t) for t in js]
        out = _pairs(objs, [ref_list(t) for t in js], fam)
        out += _copies(objs[0], [("copy()", lambda t: t.copy())], fam)
        return out
    if fam == "contract":
        js = contract_edits(case["base"])
        objs = [contract(c, simplify=False) for c in js]
        out = _pairs(objs, [ref_contract(c) for c in js], fam)
        # equal objects reached along different construction paths must be == and hash-equal
        from pacti.iocontract import Var as _V
        b0 = objs[0]
        paths = []
        if b0.inputvars:
            v = b0.inputvars[0]
            paths.append(("rename there and back", lambda c: c.rename_variable(v, _V("tmp_")).rename_variable(_V("tmp_"), v)))
        for name, f in paths:
            try:
                c2 = f(b0)
                if [x.name for x in c2.inputvars] == [x.name for x in b0.inputvars] and ref_list([[{k.name: v for k, v in t.variables.items()}, t.constant] for t in c2.g.terms]) == ref_list([[{k.name: v for k, v in t.variables.items()}, t.constant] for t in b0.g.terms]) \
                        and ref_list([[{k.name: v for k, v in t.variables.items()}, t.constant] for t in c2.a.terms]) == ref_list([[{k.name: v for k, v in t.variables.items()}, t.constant] for t in b0.a.terms]):
                    viol = None
                    if not (c2 == b0):
                        viol = {"sub": [fam, name], "what": "field-wise identical contract obtained by %s is not ==" % name}
                    elif hash(c2) != hash(b0):
                        viol = {"sub": [fam, name, "hash"], "what": "contract obtained by %s is == but hashes differently" % name}
                    out.append(("path-eq", True, None, viol, {"hash-eq": 1}))
            except ValueError:
                pass
        # a contract that is hashed, simplified in place and hashed again must still agree with an equal twin
        try:
            red = dict(case["base"])
            if red["g"]:
                t0 = red["g"][0]
                red["g"] = list(red["g"]) + [[dict(t0[0]), t0[1] + 5]]  # a redundant copy of the first guarantee
                k1 = contract(red, simplify=False)
                hash(k1)
                k1.simplify()
                k2 = contract(red, simplify=False)
                k2.simplify()
                viol = None
                if not (k1 == k2):
                    viol = {"sub": [fam, "hash-simplify"], "what": "two equal contracts simplified in place are not =="}
                elif hash(k1) != hash(k2):
                    viol = {"sub": [fam, "hash-simplify", "hash"], "what": "a contract hashed before an in-place simplify() keeps a stale hash: == to its twin but hashes differently"}
                out.append(("path-eq", True, None, viol, {"hash-eq": 1}))
        except ValueError:
            pass
        base = contract(case["base"])  # default simplification
        out += _copies(base, [("copy()", lambda c: c.copy()),
                              ("dict round trip", lambda c: PolyhedralIoContract.from_dict(c.to_machine_dict())),
                              ("dict round trip (simplify=False)", lambda c: PolyhedralIoContract.from_dict(c.to_machine_dict(), simplify=False))],
                       fam)
        return out
    if fam == "compound":
        k = case["k"]
        A = [["i <= 0"], ["i >= 1", "i <= 2"]]
        G = [["o <= 1"], ["o >= 2", "o <= 3"]]
        specs = [
            dict(assumptions=A, guarantees=G, input_vars=["i"], output_vars=["o"]),
            dict(assumptions=A, guarantees=G, input_vars=["i"], output_vars=["o", "p"]),
            dict(assumptions=A, guarantees=G, input_vars=["i", "j"], output_vars=["o"]),
            dict(assumptions=A[:1], guarantees=G, input_vars=["i"], output_vars=["o"]),
            dict(assumptions=A, guarantees=[["o <= 1"], ["o >= 2", "o <= 4"]], input_vars=["i"], output_vars=["o"]),
            dict(assumptions=A, guarantees=G, input_vars=["i"], output_vars=["o"]),
        ]
        rot = specs[k:] + specs[:k]
        objs = [PolyhedralIoContractCompound.from_strings(**s) for s in rot]
        refs = [(tuple(s["input_vars"]), tuple(s["output_vars"]), repr(s["assumptions"]), repr(s["guarantees"])) for s in rot]
        return _pairs(objs, refs, fam, hashable=False)
    raise ValueError(fam)
