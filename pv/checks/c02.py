"""C02 — the quotient composed with the divisor refines the dividend (E1, DESIGN.md 4/C02)."""
from .. import cgrid
from .. import compsem as CS
from .. import grids
from .. import oracle as O
from ..build import contract, jcontract

ID = "C02"
LEVEL = "exploration"
NSLICES = 24
ORDERS = [[5, 4, 3, 2, 1], [1], [2], [3], [4], [5], []]
RULE = (
    "E1 exhaustive over (dividend, divisor): for every level-0 contract pair (c1,c2) of the cascade, shared-input, mix, "
    "two-internal-variable and feedback wirings: dividend variants {c1 composed with c2 (so that a quotient exists); that "
    "composition with each guarantee constant relaxed by one step; with an extra assumption that the divisor does not make; "
    "with assumptions that contradict the divisor's (primitive calls fail inside the quotient); "
    "c2 itself and c1 itself as unrelated dividends} x divisor in {c1, c2} (both missing-component roles) x every "
    "additional_inputs subset of (dividend inputs + divisor outputs) of size <=1 plus the full set x simplify {True,False} x "
    "tactics_order default; when the default run reports a tactic invocation also reversed, each singleton and []. "
    "quick = complete core (first 25 pairs per wiring) + one 1/%d slice; thorough = all pairs. Oracle: exact search for a box "
    "point where the dividend's assumptions hold, divisor and quotient honour their contracts (own assumptions with 1e-7 "
    "slack) and an assumption of divisor or quotient or a dividend guarantee is broken by > tol. Both branches of the "
    "'dividend assumptions imply divisor assumptions' test must be observed. Non-trivial = returned quotient with "
    "non-empty guarantees." % NSLICES
)
REQUIRED = ["returned", "IncompatibleArgsError", "branch:implies", "branch:not-implies", "variant:composition", "variant:relaxed",
            "variant:extra-assumption", "variant:unrelated", "tactics-used"]
WIR = ("casc", "share", "mix", "casc2", "fb")


def cases(tier, seed):
    sl = seed % NSLICES
    for w in WIR:
        for k, (c1, c2) in enumerate(cgrid.pairs(w, 0)):
            if tier == "thorough" or k < 25 or k % NSLICES == sl:
                yield {"w": w, "c1": c1, "c2": c2}
    for c in _coupled():
        yield c
    if tier == "thorough":
        for c in _level1(seed):
            yield c


def _coupled():
    """divisors whose two outputs x, y are coupled by a pair of guarantees (every sign / magnitude pattern of the
    off-diagonal coefficients: cones with x + y unbounded, strips, boxes) and dividends that bound a combination of x, y
    and a fresh output p: eliminating x and y from the dividend's guarantee needs both coupled rows at once (wave 6,
    W6C02-B: the sign test of the context rows looked at the diagonal variable only)."""
    for a in (-2, -1, -0.5, 0, 1):
        for b in (-2, -1, -0.5, 0, 1):
            for k in (0, 3):
                div = {"i": ["i"], "o": ["x", "y"], "a": [[{"i": 1}, 1]], "g": [[{"x": 1, "y": a}, k], [{"y": 1, "x": b}, k]]}
                for cx, cy in ((1, 1), (1, 2), (1, -1), (1, 0)):
                    top = {"i": ["i"], "o": ["x", "y", "p"], "a": [[{"i": 1}, 1]], "g": [[{"x": cx, "y": cy, "p": 1}, 10]]}
                    yield {"w": "coupled", "c1": div, "c2": top, "fam": "coupled"}


def _level1(seed):
    for w in ("casc", "share", "mix"):
        for k, (c1, c2) in enumerate(cgrid.pairs(w, 1)):
            if k % 800 == seed % 800:
                yield {"w": w, "c1": c1, "c2": c2, "fam": "level1"}


def describe(tier, seed):
    return {"slice": None if tier == "thorough" else "%d of %d" % (seed % NSLICES, NSLICES)}


def _dividends(c1, c2):
    from pacti.contracts import PolyhedralIoContract
    from pacti.terms.polyhedra.polyhedra import PolyhedralTerm, PolyhedralTermList

    out = []
    try:
        top = c1.compose(c2)
    except ValueError:
        top = None
    except Exception as e:  # the coupled family's operands share outputs: not composable, only the "unrelated" pairs apply
        if type(e).__name__ != "IncompatibleArgsError":
            raise
        top = None
    if top is not None:
        out.append(("composition", top))
        if top.g.terms:
            g = PolyhedralTermList([PolyhedralTerm(dict(t.variables), t.constant + 1) for t in top.g.terms])
            out.append(("relaxed", PolyhedralIoContract(top.a.copy(), g, list(top.inputvars), list(top.outputvars), simplify=False)))
        if top.inputvars:
            v = top.inputvars[0]
            a = PolyhedralTermList(list(top.a.copy().terms) + [PolyhedralTerm({v: -1}, 7)])
            try:
                out.append(("extra-assumption", PolyhedralIoContract(a, top.g.copy(), list(top.inputvars), list(top.outputvars))))
            except ValueError:
                pass
        # dividend whose assumptions contradict the divisor's: every refinement in the divisor's context is infeasible
        for div in (c1, c2):
            shared = [v for v in top.inputvars if v in div.inputvars]
            if shared and div.a.terms:
                t = div.a.terms[0]
                if len(t.variables) == 1 and list(t.variables)[0] in shared:
                    v = list(t.variables)[0]
                    co = t.variables[v]
                    a = PolyhedralTermList([PolyhedralTerm({v: -co}, -t.constant - 1), PolyhedralTerm({v: co}, t.constant + 3)])
                    try:
                        out.append(("contradicting", PolyhedralIoContract(a, top.g.copy(), list(top.inputvars), list(top.outputvars), simplify=False)))
                    except ValueError:
                        pass
                    break
    out.append(("unrelated", c2))
    out.append(("unrelated", c1))
    return out


def _adds(top, div):
    legal = [v.name for v in top.inputvars] + [v.name for v in div.outputvars if v not in top.inputvars]
    out = [[]] + [[v] for v in legal]
    if len(legal) > 1:
        out.append(legal)
    return out


def run_one(top, div, add, simplify, order, sub, out, extra):
    from pacti.iocontract import Var
    from pacti.utils.errors import IncompatibleArgsError

    before = (jcontract(top), jcontract(div))
    try:
        q, stats = top.quotient_tactics(div, [Var(x) for x in add], simplify, None if order is None else list(order))
    except IncompatibleArgsError:
        if (jcontract(top), jcontract(div)) != before:
            out.append(("modified-operand", False, None, {"sub": sub, "what": "quotient modified an operand contract in place (while refusing)"}, extra))
            return None
        out.append(("IncompatibleArgsError", False, None, None, extra))
        return None
    except ValueError:
        out.append(("ValueError", False, None, None, extra))
        return None
    except Exception as e:  # noqa
        out.append(("escaped:" + type(e).__name__, False, None, {"sub": sub, "what": "quotient raised %s: %s" % (type(e).__name__, str(e)[:120])}, extra))
        return None
    used = sorted({t[0] for st in stats for t in st if t[0] > 0})
    if (jcontract(top), jcontract(div)) != before:
        out.append(("modified-operand", False, None, {"sub": sub, "what": "quotient modified an operand contract in place"}, extra))
        return any(st for st in stats)
    w = CS.quotient_unsound(top, div, q)
    viol = None
    if w is not None:
        viol = {"sub": sub, "what": "divisor composed with the quotient does not meet the dividend",
                "dividend": jcontract(top), "quotient": jcontract(q), "tactics": used, "witness": O.ptjson(w)}
    ex = dict(extra)
    if used:
        ex["tactics-used"] = 1
    out.append(("returned", bool(q.g.terms), (str(sub), str(q)), viol, ex))
    return any(st for st in stats)


def run_case(case):
    c1, c2 = contract(case["c1"]), contract(case["c2"])
    out = []
    for variant, top in _dividends(c1, c2):
        for dname, div in (("c1", c1), ("c2", c2)):
            if top is div:
                continue
            try:
                br = "branch:implies" if top.a.refines(div.a) else "branch:not-implies"
            except ValueError:
                br = "branch:error"
            for add in _adds(top, div):
                for simplify in (True, False):
                    extra = {br: 1, "variant:" + variant: 1}
                    sub = {"variant": variant, "divisor": dname, "add": add, "simplify": simplify, "order": None}
                    invoked = run_one(top, div, add, simplify, None, sub, out, extra)
                    if invoked and not add:
                        for order in ORDERS:
                            sub = {"variant": variant, "divisor": dname, "add": add, "simplify": simplify, "order": order}
                            run_one(top, div, add, simplify, order, sub, out, {})
    return out
