"""E2 — choice-point explorer for the algebra layer (DESIGN.md 2.2 / C05 / C06).

The REAL pacti.iocontract.IoContract code is executed on SymTermList, a TermList whose terms are uninterpreted
atoms (a name and a variable set).  Every primitive call (elim_vars_by_refining, elim_vars_by_relaxing,
simplify, refines) is a *choice point*: the environment picks its outcome from a finite menu that covers
what the primitive's documented contract allows, and records the logical fact that contract promises
(a definite Horn clause over atoms).  explore() enumerates answer sequences depth-first by replaying a
prefix and taking defaults afterwards, bounded by the number of non-default answers (deviations).
"""
from pacti.iocontract import IoContract, Term, TermList, Var
from pacti.utils.errors import IncompatibleArgsError  # noqa: F401


class ExplorerError(Exception):
    """harness malfunction (divergent replay, menu mismatch)"""


class SymTerm(Term):
    __slots__ = ("name", "_vars")

    def __init__(self, name, variables):
        self.name = name
        self._vars = tuple(variables)

    @property
    def vars(self):  # noqa: A003
        return list(self._vars)

    def contains_var(self, var_to_seek):
        return var_to_seek in self._vars

    def __eq__(self, other):
        if not isinstance(other, SymTerm):
            raise ValueError()
        return self.name == other.name

    def __hash__(self):
        return hash(self.name)

    def __str__(self):
        return "%s(%s)" % (self.name, ",".join(v.name for v in self._vars))

    __repr__ = __str__

    def copy(self):
        return SymTerm(self.name, self._vars)

    def rename_variable(self, source_var, target_var):
        if source_var not in self._vars:
            return self.copy()
        nv = []
        for v in self._vars:
            w = target_var if v == source_var else v
            if w not in nv:
                nv.append(w)
        return SymTerm("%s[%s:=%s]" % (self.name, source_var.name, target_var.name), nv)


class Env:
    """one execution: replays `prefix`, then answers 0 (the default) at every later choice point"""

    def __init__(self, prefix=(), force=None):
        self.prefix = list(prefix)
        self.trace = []  # (kind, menu tuple, choice index)
        self.facts = []  # (frozenset hyp atoms, frozenset concl atoms)
        self.calls = []  # abstract record of primitive calls (for conformance)
        self.nfresh = 0
        self.force = force  # conformance replay: list of forced answer labels (or tuples of acceptable labels)
        self.fallbacks = 0

    def choose(self, kind, menu):
        i = len(self.trace)
        if self.force is not None:
            if i >= len(self.force):
                raise ExplorerError("conformance replay ran past the recorded trace at %s" % kind)
            want = self.force[i]
            cands = want if isinstance(want, (tuple, list)) else (want,)
            hit = [x for x in cands if x in menu]
            if not hit:
                raise ExplorerError("recorded answer %r is not in the menu %r offered at %s: model too narrow" % (want, menu, kind))
            if hit[0] != cands[0]:
                self.fallbacks += 1
            c = menu.index(hit[0])
        elif i < len(self.prefix):
            c = self.prefix[i]
            if c >= len(menu):
                raise ExplorerError("replayed choice out of range: divergent replay")
        else:
            c = 0
        self.trace.append((kind, tuple(menu), c))
        return menu[c]

    def fresh(self, variables):
        self.nfresh += 1
        return SymTerm("f%d" % self.nfresh, variables)

    def fact(self, hyp_terms, concl_terms):
        h = frozenset(t.name for t in hyp_terms)
        c = frozenset(t.name for t in concl_terms) - h
        if c:
            self.facts.append((h, c))


ENV = None


def _uvars(*termlists):
    out = []
    for tl in termlists:
        for t in tl.terms:
            for v in t.vars:
                if v not in out:
                    out.append(v)
    return out


class SymTermList(TermList):
    def __init__(self, terms=None):
        self.terms = list(terms) if terms else []

    def __hash__(self):
        return hash(tuple(self.terms))

    def contains_behavior(self, behavior):
        raise NotImplementedError

    def is_empty(self):
        raise NotImplementedError

    def _elim(self, kind, context, vars_to_elim):
        env = ENV
        E = list(vars_to_elim)
        dirty = [t for t in self.terms if any(v in E for v in t.vars)]
        clean = [t for t in self.terms if t not in dirty]
        env.calls.append((kind, tuple(sorted(v.name for v in E)), len(self.terms), len(dirty)))
        if not self.terms:
            menu = ["same", "error"]
        elif kind == "refine":
            menu = ["fresh", "empty", "error"] + (["leftover"] if dirty else [])
        else:
            menu = ["fresh", "empty", "error"] + (["dropdirty"] if dirty and clean else [])
        ans = env.choose(kind, menu)
        if ans == "error":
            raise ValueError("symbolic primitive failed")
        if ans == "same":
            return SymTermList([t.copy() for t in self.terms]), []
        if ans == "leftover":
            # a legal decline: the result still mentions eliminated variables (unchanged or partly transformed terms)
            keepv = [v for v in _uvars(self, context) if v not in E or any(v in t.vars for t in dirty)]
            res = [t.copy() for t in clean] + [env.fresh(keepv)]
            env.fact(list(context.terms) + res, self.terms)
            return SymTermList(res), []
        if ans == "empty":
            if kind == "refine":
                env.fact(context.terms, self.terms)  # Gamma => S
            return SymTermList([]), []
        if ans == "dropdirty":
            return SymTermList([t.copy() for t in clean]), []
        # fresh: clean terms survive, the dirty ones are replaced by one new constraint over everything allowed
        res = [t.copy() for t in clean]
        if dirty:
            allowed = [v for v in _uvars(self, context) if v not in E]
            f = env.fresh(allowed)
            res.append(f)
        if kind == "refine":
            env.fact(list(context.terms) + res, self.terms)  # Gamma & R => S
        else:
            env.fact(list(context.terms) + list(self.terms), res)  # Gamma & S => R
        return SymTermList(res), []

    def elim_vars_by_refining(self, context, vars_to_elim, simplify=True, tactics_order=None):
        return self._elim("refine", context, vars_to_elim)

    def elim_vars_by_relaxing(self, context, vars_to_elim, simplify=True, tactics_order=None):
        return self._elim("relax", context, vars_to_elim)

    def simplify(self, context=None):
        env = ENV
        env.calls.append(("simplify", (), len(self.terms), 0))
        menu = ["same", "error"]
        if self.terms:
            menu.append("dropfirst")
        if len(self.terms) >= 2:
            menu.append("droplast")
        ans = env.choose("simplify", menu)
        if ans == "error":
            raise ValueError("symbolic simplify: infeasible")
        if ans == "same":
            return SymTermList([t.copy() for t in self.terms])
        keep = self.terms[1:] if ans == "dropfirst" else self.terms[:-1]
        ctx = list(context.terms) if context is not None else []
        env.fact(ctx + keep, self.terms)  # Gamma & S' => S
        return SymTermList([t.copy() for t in keep])

    def refines(self, other):
        env = ENV
        env.calls.append(("refines", (), len(self.terms), len(other.terms)))
        ans = env.choose("refines", ["True", "False"])
        if ans == "True":
            env.fact(self.terms, other.terms)  # S => O
            return True
        return False


# ------------------------------------------------------------------ Horn entailment
def closure(start, rules):
    """least model of definite clauses `rules` containing `start`"""
    s = set(start)
    changed = True
    while changed:
        changed = False
        for h, c in rules:
            if h <= s and not c <= s:
                s |= c
                changed = True
    return s


def entails(start_terms, rules, goal_terms):
    """do the rules entail (and start) -> (and goal)?  returns (ok, least model, missing goal atoms)"""
    s = closure({t.name for t in start_terms}, rules)
    missing = sorted({t.name for t in goal_terms} - s)
    return (not missing), s, missing


def truth_table_entails(start, rules, goal, atoms):
    """independent decision by enumeration of all valuations (used to cross-check closure())"""
    atoms = sorted(atoms)
    idx = {a: i for i, a in enumerate(atoms)}

    def mask(xs):
        m = 0
        for x in xs:
            m |= 1 << idx[x]
        return m

    sm, gm = mask(start), mask(goal)
    rm = [(mask(h), mask(c)) for h, c in rules]
    for v in range(1 << len(atoms)):
        if v & sm != sm:
            continue
        if any((v & h) == h and (v & c) != c for h, c in rm):
            continue
        if v & gm != gm:
            return False
    return True


def names(tl):
    return frozenset(t.name for t in tl.terms)


# ------------------------------------------------------------------ topologies
ROLES = ("i", "o", "-")


def mk_contract(spec):
    """spec = {"i": [...], "o": [...], "a": [[name, [vars]]...], "g": [...]} -> IoContract over SymTermList (no simplification)"""
    V = {n: Var(n) for n in spec["i"] + spec["o"]}
    a = SymTermList([SymTerm(n, [V[x] for x in vs]) for n, vs in spec["a"]])
    g = SymTermList([SymTerm(n, [V[x] for x in vs]) for n, vs in spec["g"]])
    return IoContract(a, g, [V[x] for x in spec["i"]], [V[x] for x in spec["o"]], simplify=False)


def run(op, spec1, spec2, arg, prefix=(), force=None, simplify=True):
    """one execution of the real algebra; returns (env, outcome, result contract | exception)"""
    global ENV
    env = Env(prefix, force)
    ENV = env
    try:
        c1, c2 = mk_contract(spec1), mk_contract(spec2)
        if env.trace:
            raise ExplorerError("operand construction consumed a choice point")
        env.snapshot = _snap(c1, c2)
        env.operands = (c1, c2)
        try:
            if op == "compose":
                res = c1.compose(c2, [Var(x) for x in arg], simplify)
            elif op == "quotient":
                res = c1.quotient(c2, [Var(x) for x in arg], simplify)
            elif op == "merge":
                res = c1.merge(c2)
            else:
                raise ExplorerError("unknown op " + op)
        except IncompatibleArgsError as e:
            return env, "IncompatibleArgsError", e, c1, c2
        except ValueError as e:
            return env, "ValueError", e, c1, c2
        except ExplorerError:
            raise
        except Exception as e:  # noqa
            return env, "escaped:" + type(e).__name__, e, c1, c2
        return env, "returned", res, c1, c2
    finally:
        ENV = None


def _snap(c1, c2):
    return tuple((tuple(t.name for t in c.a.terms), tuple(t.name for t in c.g.terms), tuple(v.name for v in c.inputvars),
                  tuple(v.name for v in c.outputvars)) for c in (c1, c2))


def operands_modified(env):
    return _snap(*env.operands) != env.snapshot


def obligations(op, c1, c2, res, env):
    """list of (label, ok, detail) for a returned result, decided from the recorded facts"""
    out = []
    facts = list(env.facts)
    A1, G1, A2, G2 = c1.a, c1.g, c2.a, c2.g
    AR, GR = res.a, res.g
    if op == "compose":
        rules = facts + [(names(A1), names(G1)), (names(A2), names(G2))]
        ok, model, missing = entails(AR.terms, rules, list(A1.terms) + list(A2.terms) + list(GR.terms))
        out.append(("C01", ok, missing, rules, names(AR)))
    elif op == "quotient":
        # c1 = dividend C, c2 = divisor C1, res = Q
        rules = facts + [(names(A2), names(G2)), (names(AR), names(GR))]
        ok, model, missing = entails(A1.terms, rules, list(A2.terms) + list(AR.terms) + list(G1.terms))
        out.append(("C02", ok, missing, rules, names(A1)))
    elif op == "merge":
        both_a = list(A1.terms) + list(A2.terms)
        both_g = list(G1.terms) + list(G2.terms)
        ok, _, missing = entails(AR.terms, facts, both_a)
        out.append(("C08:A_M=>A1&A2", ok, missing, facts, names(AR)))
        ok, _, missing = entails(both_a, facts, AR.terms)
        out.append(("C08:A1&A2=>A_M", ok, missing, facts, frozenset(t.name for t in both_a)))
        ok, _, missing = entails(list(AR.terms) + list(GR.terms), facts, both_g)
        out.append(("C08:A_M&G_M=>G1&G2", ok, missing, facts, names(AR) | names(GR)))
        ok, _, missing = entails(list(AR.terms) + both_g, facts, GR.terms)
        out.append(("C08:A_M&G1&G2=>G_M", ok, missing, facts, names(AR) | frozenset(t.name for t in both_g)))
    return out


def well_formed(res):
    ins, outs = res.inputvars, res.outputvars
    probs = []
    if len(set(ins)) != len(ins) or len(set(outs)) != len(outs):
        probs.append("duplicate interface variable")
    if set(ins) & set(outs):
        probs.append("input/output overlap")
    if not set(res.a.vars) <= set(ins):
        probs.append("assumptions mention a non-input")
    if not set(res.g.vars) <= set(ins) | set(outs):
        probs.append("guarantees mention a variable outside the interface")
    return probs


# ------------------------------------------------------------------ reference interface model (from the property text)
def ref_compose(s1, s2, keep, avars1, avars2):
    i1, o1, i2, o2 = set(s1["i"]), set(s1["o"]), set(s2["i"]), set(s2["o"])
    if o1 & o2:
        return None
    if not set(keep) <= (o1 | o2):
        return None
    cycle = bool(i1 & o2) and bool(i2 & o1)
    if cycle and ((o2 & set(avars1)) or (o1 & set(avars2))):
        return None
    ins = (i1 - o2) | (i2 - o1)
    outs = ((o1 - i2) | (o2 - i1)) | set(keep)
    return ins, outs


def ref_quotient(s, s1, add):
    ic, oc, i1, o1 = set(s["i"]), set(s["o"]), set(s1["i"]), set(s1["o"])
    if (oc - o1) & i1:
        return None
    if not set(add) <= (ic | o1):
        return None
    ins = (ic - i1) | (o1 - oc) | set(add)
    outs = (oc - o1) | (i1 - ic)
    return ins, outs


def ref_merge(s1, s2):
    ins = set(s1["i"]) | set(s2["i"])
    outs = set(s1["o"]) | set(s2["o"])
    if ins & outs:
        return None
    return ins, outs


def explore_tree(op, s1, s2, arg, bound, visit):
    """depth-first enumeration of answer sequences with at most `bound` deviations (None = complete tree).
    visit(env, outcome, res, c1, c2) is called for every execution; returns number of executions"""
    n = 0
    stack = [[]]
    while stack:
        prefix = stack.pop()
        env, outcome, res, c1, c2 = run(op, s1, s2, arg, prefix)
        tr = env.trace
        for k in range(len(prefix)):
            if tr[k][2] != prefix[k]:
                raise ExplorerError("divergent replay")
        n += 1
        visit(env, outcome, res, c1, c2)
        dev = sum(1 for c in prefix if c)
        for i in range(len(prefix), len(tr)):
            if bound is not None and dev + 1 > bound:
                break
            base = [t[2] for t in tr[:i]]
            for alt in range(1, len(tr[i][1])):
                stack.append(base + [alt])
    return n
