"""JSON case <-> pacti objects."""
from pacti.iocontract import Var
from pacti.terms.polyhedra.polyhedra import PolyhedralTerm, PolyhedralTermList
from pacti.contracts import PolyhedralIoContract


def pterm(t):
    return PolyhedralTerm({Var(n): c for n, c in t[0].items()}, t[1])


def plist(ts):
    return PolyhedralTermList([pterm(t) for t in ts])


def pvars(ns):
    return [Var(n) for n in ns]


def contract(c, simplify=True):
    """c = {"i": [...], "o": [...], "a": [terms], "g": [terms]}"""
    return PolyhedralIoContract(plist(c["a"]), plist(c["g"]), pvars(c["i"]), pvars(c["o"]), simplify=simplify)


def jterm(t):
    return [{v.name: float(c) for v, c in sorted(t.variables.items(), key=lambda kv: kv[0].name)}, float(t.constant)]


def jlist(tl):
    return [jterm(t) for t in tl.terms]


def jcontract(c):
    return {"i": [v.name for v in c.inputvars], "o": [v.name for v in c.outputvars], "a": jlist(c.a), "g": jlist(c.g)}


def sig_list(tl):
    return tuple((tuple(sorted((v.name, float(c)) for v, c in t.variables.items())), float(t.constant)) for t in tl.terms)
