"""Enumerators for small-scope alphabets (duplicate free, simplest first) and their closed-form sizes."""
import itertools
from math import comb


def vectors(nv, K):
    """all non-zero coefficient vectors in K^nv, simplest first"""
    vs = [v for v in itertools.product(K, repeat=nv) if any(v)]
    vs.sort(key=lambda v: (sum(1 for c in v if c), sum(abs(c) for c in v), tuple(-c for c in v)))
    return vs


def terms(names, K, B):
    """T(V,K,B): every term sum k_v v <= b ; JSON form [ {name: coef}, const ]"""
    out = []
    for v in vectors(len(names), K):
        for b in B:
            out.append([{n: c for n, c in zip(names, v) if c}, b])
    return out


def n_terms(nv, K, B):
    k = len(K) if 0 in K else len(K) + 0
    return (len(K) ** nv - (1 if 0 in K else 0)) * len(B)


def lists_upto(ts, n, ordered=False, minlen=0):
    """lists of <= n distinct terms: combinations (or all orders when ordered)"""
    for k in range(minlen, n + 1):
        it = itertools.permutations(ts, k) if ordered else itertools.combinations(ts, k)
        for c in it:
            yield list(c)


def n_lists_upto(nt, n, ordered=False, minlen=0):
    tot = 0
    for k in range(minlen, n + 1):
        c = comb(nt, k)
        if ordered:
            for i in range(1, k + 1):
                c *= i
        tot += c
    return tot


def subsets(xs, minlen=0):
    xs = list(xs)
    for k in range(minlen, len(xs) + 1):
        for c in itertools.combinations(xs, k):
            yield list(c)


def tvars(t):
    return set(t[0].keys())


def lvars(ts):
    s = set()
    for t in ts:
        s |= set(t[0].keys())
    return s


def dedupe(gen):
    """drop exact duplicates (by canonical JSON) from a family generator, keeping first occurrences"""
    import json

    seen = set()
    for c in gen:
        k = hash(json.dumps(c, sort_keys=True, separators=(",", ":")))
        if k in seen:
            continue
        seen.add(k)
        yield c
