"""Replay one recorded violation against /repo/src without the explorer:
    /venv/bin/python -m pv.replay /verif/replays/C04/<key>.json
Runs the recorded case twice with plain calls + oracle; exit 1 if the violation reproduces, 0 if it does not,
2 if the two runs disagree (nondeterminism = harness malfunction)."""
import importlib
import json
import sys

from . import loader

loader.reexec_if_needed()
loader.bootstrap()

from . import engine, oracle  # noqa: E402


def main():
    path = sys.argv[1]
    with open(path) as f:
        doc = json.load(f)
    mod = importlib.import_module("pv.checks." + doc["property"].lower())
    oracle.selftest()
    if hasattr(mod, "worker_init"):
        mod.worker_init()
    if hasattr(mod, "replay"):
        return mod.replay(doc)
    want = engine.canon(doc["violation"].get("sub"))
    seen = []
    for _ in range(2):
        res = mod.run_case(doc["case"])
        vs = res.get("violations", []) if isinstance(res, dict) else [r[3] for r in res if r[3] is not None]
        hits = [x for x in vs if engine.canon(x.get("sub")) == want]
        seen.append(hits)
    if bool(seen[0]) != bool(seen[1]):
        print("BROKEN: replay is not deterministic")
        return 2
    if seen[0]:
        print("REPRODUCED property=%s %s" % (doc["property"], json.dumps(seen[0][0], default=str)))
        return 1
    print("NOT-REPRODUCED property=%s (the recorded violation does not occur on the current tree)" % doc["property"])
    return 0


if __name__ == "__main__":
    sys.exit(main())
