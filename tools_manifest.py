"""Regenerate /verif/MANIFEST.json from the table below and validate it against the schema."""
import json, os, sys
sys.path.append('/verif/.deps')
V = '/verif'
PY = '/venv/bin/python'
E1NOTE = 'z3 LRA as exact per-execution oracle on concrete results, every witness re-evaluated with Fraction arithmetic; installed scipy/HiGHS, numpy, sympy, pyparsing as part of the implementation under test; grid bounds as printed in the evidence; reference models written from the property text'
def e1(what, ref):
    return ('exploration', 'bounded exhaustive enumeration of inputs/configurations executed on the real code, exact rational oracle per execution',
            what + ' A coverage statement over the stated finite grid (complete enumeration, no sampling), not a proof beyond it.', E1NOTE, ref)
CHECKS = {
 # id: (level, technique, level text, note, design_ref)
 'C03': e1('Every ordered pair of small constraint lists / contracts of the grid (incl. derived Farkas consequences, duplicates, scalings, infeasible sides, every pair of different interfaces) is put through refines, <=, contains_environment and contains_implementation and compared with an exact three-valued containment verdict.', 'DESIGN.md 4/C03'),
 'C04': e1('Every case of a stated finite grid (coefficients {-1,0,1,2}, <=2+3 terms, <=4 variables) is executed under every tactic configuration (each singleton, default, reversed, all 120 permutations on a sub-grid, simplify on/off, refine and relax) and the implication required by the property is decided exactly for each execution.', 'DESIGN.md 4/C04'),
 'C07': e1('Every (list, context) of the grid, every planted redundancy (duplicate, scaling, sum, tight and nearly tight copies, implied only via context) and the contract constructor / simplify() are executed; sub-multiset, equivalence in context, irredundancy and the ValueError-only-if-infeasible rule are decided exactly.', 'DESIGN.md 4/C07'),
 'C11': e1('Every list of the grid is evaluated on every behaviour of a dyadic lattice (on, inside and outside every boundary), with unassigned and extra variables; is_empty on every small list and on thin systems; consistency with refines on all pairs.', 'DESIGN.md 4/C11'),
 'C12': e1('Every contract of the grids (infeasible, bounded, unbounded; dense 3-variable systems where the LP presolve misreports) x 9 objectives x both directions and get_variable_bounds is compared with the exact rational LP answer.', 'DESIGN.md 4/C12'),
 'C19': e1('Every single-field edit of every base term / list / contract / compound contract, all ordered pairs and triples of each family, copies and dictionary round trips are compared with field-wise reference equality; symmetry, transitivity and eq=>hash-eq are checked on every pair.', 'DESIGN.md 4/C19'),
}
TODO = {}
props = [json.loads(l) for l in open(V + '/properties.jsonl')]
checks = []
for p in props:
    pid = p['id']
    if pid not in CHECKS:
        continue
    lvl, tech, text, note, ref = CHECKS[pid]
    checks.append({
        'property_id': pid,
        'quick_cmd': '%s -m pv.run %s --tier quick' % (PY, pid),
        'thorough_cmd': '%s -m pv.run %s --tier thorough' % (PY, pid),
        'evidence_file': '%s/evidence/%s.json' % (V, pid),
        'replay_cmd_template': '%s -m pv.replay {path}' % PY,
        'engine': 'E2' if pid == 'C05' else ('E3' if pid == 'C13' else 'E1'),
        'level_claimed': {'category': lvl, 'text': text, 'design_ref': ref},
        'level_note': note,
        'technique': tech,
    })
na = [{'property_id': p['id'], 'reason': TODO.get(p['id'], 'check not built yet (build in progress, see DESIGN.md 7.2); model checking applies')}
      for p in props if p['id'] not in CHECKS]
m = {
 'version': 1,
 'setup_cmd': 'test -d /verif/.deps/z3 || /venv/bin/pip install -q --no-index --find-links /opt/veriftools/wheels --target /verif/.deps z3-solver jsonschema',
 'hooks': {'guard': 'PACTI_VERIF', 'enable': 'no source hooks: the harness wraps module attributes of the freshly imported /repo/src modules (PACTI_VERIF=1 is exported by the checks for documentation only)',
           'baseline_off_cmd': 'cd /repo && /venv/bin/python -m pytest -ra -q -p no:cacheprovider --timeout=900 --continue-on-collection-errors',
           'source_commits': [], 'add_only': True},
 'engines': [
   {'name': 'E1', 'path': 'pv/engine.py', 'serves_properties': [c['property_id'] for c in checks if c['engine'] == 'E1'], 'kind_free_text': 'small-scope exhaustive input/configuration explorer over the real code with an exact rational oracle per execution'},
   {'name': 'E2', 'path': 'pv/explore_choice.py', 'serves_properties': ['C05'], 'kind_free_text': 'stateless choice-point explorer: real algebra code run against every answer sequence of abstract primitives (deviation bounded), truth-table entailment oracle, conformance replay of real polyhedral runs'},
   {'name': 'E3', 'path': 'pv/explore_session.py', 'serves_properties': ['C13'], 'kind_free_text': 'explicit-state session explorer: BFS over operation histories with state fingerprints, fresh-interpreter comparison of every transition'},
 ],
 'checks': checks,
 'not_applicable': na,
 'notes': 'All checks run from /verif with cwd=/verif; VERIF_SEED selects the quick slice; exit 2 = harness malfunction. See DESIGN.md.',
}
import jsonschema
jsonschema.validate(m, json.load(open('/root/.vp/MANIFEST.schema.json')))
json.dump(m, open(V + '/MANIFEST.json', 'w'), indent=1)
print('MANIFEST ok: %d checks, %d not claimed' % (len(checks), len(na)))
