"""Regenerate /verif/MANIFEST.json from the table below and validate it against the schema."""
import json, os, sys
sys.path.append('/verif/.deps')
V = '/verif'
PY = '/venv/bin/python'
CHECKS = {
 # id: (level, technique, level text, note, design_ref)
 'C04': ('exploration', 'bounded exhaustive enumeration of (constraints, context, eliminated set) x every tactic configuration on the real code, exact rational oracle per execution',
         'Every case of a stated finite grid (coefficients {-1,0,1,2}, <=2+3 terms, <=4 variables) is executed under every tactic configuration (each singleton, default, reversed, all 120 permutations on a sub-grid, simplify on/off, refine and relax) and the implication required by the property is decided exactly for each execution. A coverage statement over the grid, not a proof beyond it; small scopes are where the tactic defects live.',
         'z3 LRA as exact per-execution oracle with Fraction re-evaluation of every witness; installed scipy/HiGHS as part of the implementation; grid bounds as printed in the evidence', 'DESIGN.md 4/C04'),
}
TODO = {}
props = [json.loads(l) for l in open(V + '/properties.jsonl')]
checks = []
for p in props:
    pid = p['id']
    if pid not in CHECKS:
        continue
    lvl, tech, text, note, ref = CHECKS[pid]
    checks.append({
        'property_id': pid,
        'quick_cmd': '%s -m pv.run %s --tier quick' % (PY, pid),
        'thorough_cmd': '%s -m pv.run %s --tier thorough' % (PY, pid),
        'evidence_file': '%s/evidence/%s.json' % (V, pid),
        'replay_cmd_template': '%s -m pv.replay {path}' % PY,
        'engine': 'E2' if pid == 'C05' else ('E3' if pid == 'C13' else 'E1'),
        'level_claimed': {'category': lvl, 'text': text, 'design_ref': ref},
        'level_note': note,
        'technique': tech,
    })
na = [{'property_id': p['id'], 'reason': TODO.get(p['id'], 'check not built yet (build in progress, see DESIGN.md 7.2); model checking applies')}
      for p in props if p['id'] not in CHECKS]
m = {
 'version': 1,
 'setup_cmd': 'test -d /verif/.deps/z3 || /venv/bin/pip install -q --no-index --find-links /opt/veriftools/wheels --target /verif/.deps z3-solver jsonschema',
 'hooks': {'guard': 'PACTI_VERIF', 'enable': 'no source hooks: the harness wraps module attributes of the freshly imported /repo/src modules (PACTI_VERIF=1 is exported by the checks for documentation only)',
           'baseline_off_cmd': 'cd /repo && /venv/bin/python -m pytest -ra -q -p no:cacheprovider --timeout=900 --continue-on-collection-errors',
           'source_commits': [], 'add_only': True},
 'engines': [
   {'name': 'E1', 'path': 'pv/engine.py', 'serves_properties': [c['property_id'] for c in checks if c['engine'] == 'E1'], 'kind_free_text': 'small-scope exhaustive input/configuration explorer over the real code with an exact rational oracle per execution'},
   {'name': 'E2', 'path': 'pv/explore_choice.py', 'serves_properties': ['C05'], 'kind_free_text': 'stateless choice-point explorer: real algebra code run against every answer sequence of abstract primitives (deviation bounded), truth-table entailment oracle, conformance replay of real polyhedral runs'},
   {'name': 'E3', 'path': 'pv/explore_session.py', 'serves_properties': ['C13'], 'kind_free_text': 'explicit-state session explorer: BFS over operation histories with state fingerprints, fresh-interpreter comparison of every transition'},
 ],
 'checks': checks,
 'not_applicable': na,
 'notes': 'All checks run from /verif with cwd=/verif; VERIF_SEED selects the quick slice; exit 2 = harness malfunction. See DESIGN.md.',
}
import jsonschema
jsonschema.validate(m, json.load(open('/root/.vp/MANIFEST.schema.json')))
json.dump(m, open(V + '/MANIFEST.json', 'w'), indent=1)
print('MANIFEST ok: %d checks, %d not claimed' % (len(checks), len(na)))
