"""Regenerate /verif/MANIFEST.json from the table below and validate it against the schema."""
import json, os, sys
sys.path.append('/verif/.deps')
V = '/verif'
PY = '/venv/bin/python'
E1NOTE = 'z3 LRA as exact per-execution oracle on concrete results, every witness re-evaluated with Fraction arithmetic; installed scipy/HiGHS, numpy, sympy, pyparsing as part of the implementation under test; grid bounds as printed in the evidence; reference models written from the property text'
def e1(what, ref):
    return ('exploration', 'bounded exhaustive enumeration of inputs/configurations executed on the real code, exact rational oracle per execution',
            what + ' A coverage statement over the stated finite grid (complete enumeration, no sampling), not a proof beyond it.', E1NOTE, ref)
MC_NOTE = 'the real pacti code is executed; installed numpy/scipy/sympy/pyparsing are part of the implementation; bounds (deviations, construction depth, pool size) as printed in the evidence'
CHECKS = {
 # id: (level, technique, level text, note, design_ref)
 'C01': e1('Contract pairs of six wirings (independent, cascade both call orders, shared input, feedback, two internal variables, cascade + external input) x vars_to_keep x simplify x tactic orders are composed for real and an exact search looks for a situation in which the result\'s assumptions hold, both components honour their contracts and an operand assumption or a result guarantee is broken.', 'DESIGN.md 4/C01'),
 'C02': e1('Dividends built by composition (so that a quotient exists), relaxed / re-assumed variants, unrelated dividends and divisors with sign-coupled output pairs (family coupled, 200 pairs) x both divisor roles x additional_inputs x simplify x tactic orders; exact search for a situation breaking "divisor composed with quotient meets the dividend"; both branches of the assumption-implication guard observed.', 'DESIGN.md 4/C02'),
 'C03': e1('Every ordered pair of small constraint lists / contracts of the grid (incl. derived Farkas consequences, duplicates, scalings, infeasible and far-from-origin sides, separated pairs, every pair of different interfaces) is put through refines, <=, contains_environment and contains_implementation and compared with an exact three-valued containment verdict.', 'DESIGN.md 4/C03'),
 'C04': e1('Every case of a stated finite grid (coefficients {-1,0,1,2}, <=2+3 terms, <=4 variables) is executed under every tactic configuration (each singleton, default, reversed, all 120 permutations on a sub-grid, simplify on/off, refine and relax) and the implication required by the property is decided exactly for each execution.', 'DESIGN.md 4/C04'),
 'C05': ('model_checking', 'stateless model checking of the real algebra code: deviation-bounded enumeration of every answer sequence of abstract primitives over every interface topology; Horn/truth-table entailment oracle; conformance replay of recorded polyhedral traces',
         'The real IoContract.compose/quotient/merge run on a symbolic TermList; every primitive call is a choice point answered from a finite menu covering the documented primitive contracts; all answer sequences up to the stated deviation bound (complete trees for <=2 variables in thorough) over all topologies / mention patterns / arguments are explored and each returned result must satisfy the C01/C02/C08 obligation as a consequence of the recorded primitive facts. The model is bound to the code by replaying the abstracted primitive traces of real polyhedral runs (traces_validated_against_impl).',
         MC_NOTE + '; the menu is an abstraction of a constraint domain, validated against the polyhedral domain by the conformance replay; the axioms attached to answers are what C03/C04/C07 check for polyhedra', 'DESIGN.md 4/C05'),
 'C06': e1('Every ordered role assignment of up to 5 (thorough 6) variables to two contracts x mention patterns x kept / additional variables for compose, quotient, merge under the always-succeed environment, and every one-contract role assignment x (source,target) for rename, copy and ill-formed constructor arguments, compared with an independent set-algebra reference of the prescribed interface.', 'DESIGN.md 4/C06'),
 'C07': e1('Every (list, context) of the grid, every planted redundancy (duplicate, scaling, sum, tight and nearly tight copies, implied only via context) and the contract constructor / simplify() are executed; sub-multiset, equivalence in context, irredundancy and the ValueError-only-if-infeasible rule are decided exactly.', 'DESIGN.md 4/C07'),
 'C08': e1('All ordered pairs of contracts over five interface shapes incl. duplicated and mutually redundant terms; interface union, two-way equivalence of assumptions and of assumptions-and-guarantees, and agreement of both operand orders are decided exactly.', 'DESIGN.md 4/C08'),
 'C09': e1('Expression trees generated from the documented BNF (not from the code) are rendered in every combination of spelling choices and parsed by the real parser; the parsed inequalities are compared with an independent exact piecewise-linear reference semantics for all real points; must-accept / may-reject classes, spelling-independence, malformed strings and determinism are checked.', 'DESIGN.md 4/C09'),
 'C10': e1('Contracts over a magnitude ladder ([1e-4,1e6], 4-digit decimals, +-1 ulp, 5th/6th digit perturbations) with opposite-term pairs in every position are round-tripped through machine dictionary, string form and both file representations; exact identity, exact rounded-reading equality (decimal reference rounding) and semantic equivalence are checked.', 'DESIGN.md 4/C10'),
 'C11': e1('Every list of the grid is evaluated on every behaviour of a dyadic lattice (on, inside and outside every boundary), with unassigned and extra variables; is_empty on every small list and on thin systems; consistency with refines on all pairs.', 'DESIGN.md 4/C11'),
 'C12': e1('Every contract of the grids (infeasible, bounded, unbounded; dense 3-variable systems where the LP presolve misreports) x 9 objectives x both directions and get_variable_bounds is compared with the exact rational LP answer.', 'DESIGN.md 4/C12'),
 'C13': ('model_checking', 'explicit-state exploration of operation histories on the real library: every operation x every argument tuple of a growing pool, state fingerprints (modules, grammar graph, pool with identity partition), every transition compared with the same call in a process forked from a pristine interpreter',
         'Each worker is one long session executing its shard of all (operation, argument tuple) transitions over a typed pool into which results are fed back (construction depth 2-3), followed by a history in which every ordered pair of operation kinds is adjacent. After every transition every pool member (operands, option lists) must be unchanged, the result must be identity-disjoint from its operands, and must equal bit for bit the result of the same call in a fresh interpreter; the hidden state (all pacti module/class-level objects, pyparsing grammar graph) is fingerprinted too: when it never changes (closed_hidden_states = 1 in the evidence, as on the current tree) the reachable hidden state is the initial one and the verdict extends by induction to histories of any length over the explored pool; a change of hidden state alone is counted, not reported.',
         MC_NOTE + '; third-party caches are only observed behaviourally (fresh-process comparison)', 'DESIGN.md 4/C13'),
 'C14': ('fault_enumeration', 'exhaustive single-field fault enumeration of valid contract dictionaries / files against a reference validator, plus exhaustive adversarial grids through every public operation with exception classification and operand snapshots',
         'Every JSON path x {delete, null, bool, int, float, string, list, dict} of valid dictionaries in both representations is fed to validate_contract_dict, from_dict and the file reader and judged by an independent three-valued reference validator; an adversarial grid (empty, variable-free, cancelling, infeasible, unbounded, degenerate) through every public operation under every tactic configuration classifies every exception against the documented set and re-checks operands and repeatability; the generators of eight other checks are re-run in classify-only mode.',
         E1NOTE, 'DESIGN.md 4/C14'),
 'C15': e1('Pairs whose guarantees share an interface-level constraint (identical, scaled, weaker, stronger) over shared inputs and kept connection variables, unconnected pairs and merges, both call orders, simplify on/off: every operand guarantee over the result interface must be enforced by the result; unconnected composition must be exact.', 'DESIGN.md 4/C15'),
 'C16': e1('Contracts over four names x every (source,target) incl. fresh / absent / same / clashing, rename-to-fresh-and-back and mapping lists (swaps through a temporary) compared with a reference substitution on exact rationals; positional interface rule, identity, clash rejection.', 'DESIGN.md 4/C16'),
 'C17': e1('Nested lists of lattice intervals / boxes / triangles (disjoint, touching, overlapping, nested, empty by construction): disjointness enforcement iff a shared behaviour exists, membership = some alternative, <= only if union containment, merged alternatives = intersection of unions with empty alternatives dropped - exact reasoning with disjunctions.', 'DESIGN.md 4/C17'),
 'C18': e1('Constraint lists over 2-4 variables x integer assignments x axis limits x both roles of the plotted pair, incl. empty and degenerate slices, compared with exact rational vertex enumeration: returned points are corners, no corner missing, counter-clockwise order, ValueError iff empty or unassigned.', 'DESIGN.md 4/C18'),
 'C19': e1('Every single-field edit of every base term / list / contract / compound contract, all ordered pairs and triples of each family, copies and dictionary round trips are compared with field-wise reference equality; symmetry, transitivity and eq=>hash-eq are checked on every pair.', 'DESIGN.md 4/C19'),
}
TODO = {}
props = [json.loads(l) for l in open(V + '/properties.jsonl')]
checks = []
for p in props:
    pid = p['id']
    if pid not in CHECKS:
        continue
    lvl, tech, text, note, ref = CHECKS[pid]
    checks.append({
        'property_id': pid,
        'quick_cmd': '%s -m pv.run %s --tier quick' % (PY, pid),
        'thorough_cmd': '%s -m pv.run %s --tier thorough' % (PY, pid),
        'evidence_file': '%s/evidence/%s.json' % (V, pid),
        'replay_cmd_template': '%s -m pv.replay {path}' % PY,
        'engine': 'E2' if pid == 'C05' else ('E3' if pid == 'C13' else 'E1'),
        'level_claimed': {'category': lvl, 'text': text, 'design_ref': ref},
        'level_note': note,
        'technique': tech,
    })
na = [{'property_id': p['id'], 'reason': TODO.get(p['id'], 'check not built yet (build in progress, see DESIGN.md 7.2); model checking applies')}
      for p in props if p['id'] not in CHECKS]
m = {
 'version': 1,
 'setup_cmd': 'test -d /verif/.deps/z3 || /venv/bin/pip install -q --no-index --find-links /opt/veriftools/wheels --target /verif/.deps z3-solver jsonschema',
 'hooks': {'guard': 'PACTI_VERIF', 'enable': 'no source hooks: the harness wraps module attributes of the freshly imported /repo/src modules (PACTI_VERIF=1 is exported by the checks for documentation only)',
           'baseline_off_cmd': 'cd /repo && /venv/bin/python -m pytest -ra -q -p no:cacheprovider --timeout=900 --continue-on-collection-errors',
           'source_commits': [], 'add_only': True},
 'engines': [
   {'name': 'E1', 'path': 'pv/engine.py', 'serves_properties': [c['property_id'] for c in checks if c['engine'] == 'E1'], 'kind_free_text': 'small-scope exhaustive input/configuration explorer over the real code with an exact rational oracle per execution'},
   {'name': 'E2', 'path': 'pv/explore_choice.py', 'serves_properties': ['C05'], 'kind_free_text': 'stateless choice-point explorer: real algebra code run against every answer sequence of abstract primitives (deviation bounded), truth-table entailment oracle, conformance replay of real polyhedral runs'},
   {'name': 'E3', 'path': 'pv/explore_session.py', 'serves_properties': ['C13'], 'kind_free_text': 'explicit-state session explorer: BFS over operation histories with state fingerprints, fresh-interpreter comparison of every transition'},
 ],
 'checks': checks,
 'not_applicable': na,
 'notes': 'All checks run from /verif with cwd=/verif; VERIF_SEED selects the quick slice; exit 2 = harness malfunction. See DESIGN.md.',
}
import jsonschema
jsonschema.validate(m, json.load(open('/root/.vp/MANIFEST.schema.json')))
json.dump(m, open(V + '/MANIFEST.json', 'w'), indent=1)
print('MANIFEST ok: %d checks, %d not claimed' % (len(checks), len(na)))
