"""Final evaluation of every kept seeded change against the current /repo HEAD and the current checks.
usage: tools_seed_final.py [ids...]      (default: all of /verif/seeded)
For each /verif/seeded/<id>: a scratch worktree of /repo HEAD (outside /repo and /verif) is reset, demo.py must exit 0; patch.diff is applied,
pacti's suite must still pass and demo.py must exit non-zero; the listed checks are run (quick tier) against the patched worktree
through PV_REPO; results go to meta.json.  The worktree is removed at the end."""
import json, os, subprocess, sys, time, glob
WT = '/tmp/seedfinal'
RELATED = {
 'C01-A': ['C01', 'C05'], 'C01-B': ['C04', 'C01'], 'C02-A': ['C02', 'C05'], 'C02-B': ['C02', 'C04'], 'C05-A': ['C05', 'C02'], 'C05-B': ['C05', 'C01'],
 'C06-A': ['C06', 'C03'], 'C07-A': ['C13', 'C07'], 'C08-A': ['C08', 'C19'], 'C11-B': ['C11', 'C03'], 'C14-B': ['C14', 'C04'], 'C15-B': ['C15', 'C19'],
 'C01-2A': ['C01', 'C04'], 'C01-2B': ['C04', 'C01'], 'C01-2C': ['C13', 'C01'], 'C02-2A': ['C02', 'C04'], 'C02-2B': ['C04', 'C02'], 'C02-2C': ['C02', 'C13'],
 'C03-2C': ['C03', 'C13'], 'C05-2C': ['C05', 'C13'], 'C06-2C': ['C06', 'C13'], 'C07-2C': ['C07', 'C13'], 'C08-2C': ['C08', 'C13'], 'C09-2C': ['C13', 'C09'],
 'C11-2C': ['C11', 'C13'], 'C12-2C': ['C12', 'C13'], 'C15-2C': ['C15', 'C13'], 'C16-2C': ['C16', 'C13'], 'C17-2C': ['C17'], 'C19-2C': ['C19'],
 'C14-2C': ['C14', 'C13'], 'C13-2A': ['C13', 'C12'],
}
def sh(cmd, cwd=WT, env=None):
    return subprocess.run(cmd, shell=True, cwd=cwd, env=env, capture_output=True, text=True)
ids = sys.argv[1:] or sorted(os.path.basename(d) for d in glob.glob('/verif/seeded/[CR]*'))
sh('git worktree remove --force %s' % WT, cwd='/repo'); sh('git worktree prune', cwd='/repo')
r = sh('git worktree add --detach %s HEAD' % WT, cwd='/repo')
head = sh('git rev-parse HEAD', cwd='/repo').stdout.strip()
env = dict(os.environ, PYTHONPATH=WT + '/src', PYTHONDONTWRITEBYTECODE='1', MPLBACKEND='Agg')
for sid in ids:
    d = '/verif/seeded/' + sid
    meta = json.load(open(d + '/meta.json')) if os.path.exists(d + '/meta.json') else {}
    if meta.get('evaluated_at_repo_head') == head and meta.get('final') and not os.environ.get('SEED_FORCE'):
        continue
    sh('git checkout -- . && git clean -fdq')
    # demos written by the sub-agents sometimes name their own (long gone) worktree: run a copy that names this one
    import re
    src_demo = open(d + '/demo.py').read()
    demo = WT + '/_seed_demo.py'
    open(demo, 'w').write(re.sub(r'/tmp/w[t23]_[A-Za-z0-9]+', WT, src_demo))
    meta['evaluated_at_repo_head'] = head
    meta['demo_without'] = sh('/venv/bin/python %s' % demo, env=env).returncode
    a = sh('git apply %s' % (d + '/patch.diff'))
    if a.returncode:
        a = sh('git apply -3 %s' % (d + '/patch.diff'))
    meta['applies_to_head'] = a.returncode == 0
    if a.returncode:
        meta['apply_error'] = a.stderr[-300:]
        json.dump(meta, open(d + '/meta.json', 'w'), indent=1); print(sid, 'DOES NOT APPLY'); continue
    t = sh('/venv/bin/python -m pytest -q -p no:cacheprovider --timeout=900 2>&1 | tail -1', env=env); meta['suite_with'] = t.stdout.strip()
    rr = sh('/venv/bin/python %s' % demo, env=env); meta['demo_with'] = rr.returncode
    checks = RELATED.get(sid) or ([sid.split('-')[0]] if sid.startswith('C') else list((meta.get('checks') or {}).keys()) or ['C14'])
    meta['checks'] = {}
    for c in checks:
        if any(v['exit'] == 1 for v in meta['checks'].values()) and (c != sid.split('-')[0] or sid.startswith('R')):
            continue  # already caught; the property's own check is always run
        e2 = dict(os.environ, PV_REPO=WT, VERIF_SEED=os.environ.get('VERIF_SEED', '0'))
        t0 = time.time()
        r = subprocess.run('/venv/bin/python -m pv.run %s --tier quick' % c, shell=True, cwd='/verif', env=e2, capture_output=True, text=True)
        lines = [l for l in r.stdout.splitlines() if l.startswith('VIOLATION')]
        what = ''
        if lines:
            try:
                what = json.load(open(lines[0].split('replay=')[1]))['violation'].get('what', '')[:200]
            except Exception as ex:
                what = str(ex)
        meta['checks'][c] = {'exit': r.returncode, 'violations': len(lines), 'first': what, 'wall_s': round(time.time() - t0, 1),
                             'stderr': r.stderr[-300:] if r.returncode == 2 else ''}
    meta['final'] = True
    json.dump(meta, open(d + '/meta.json', 'w'), indent=1)
    print(sid, 'suite:', meta['suite_with'][:12], 'demo:', meta['demo_without'], meta['demo_with'], {k: v['exit'] for k, v in meta['checks'].items()}, flush=True)
sh('git checkout -- . && git clean -fdq')
sh('git worktree remove --force %s' % WT, cwd='/repo')
