"""Regenerate /verif/MUTATIONS.md from /verif/seeded/*/meta.json"""
import json, glob, os
rows = []
for f in sorted(glob.glob('/verif/seeded/*/meta.json')):
    d = json.load(open(f))
    name = os.path.basename(os.path.dirname(f))
    valid = d['suite_with'].startswith('144 passed') and d['demo_without'] == 0 and d['demo_with'] != 0
    caught = [k for k, v in d['checks'].items() if v['exit'] == 1]
    missed = [k for k, v in d['checks'].items() if v['exit'] == 0]
    first = next((v['first'] for k, v in d['checks'].items() if v['exit'] == 1), '')
    rows.append((name, d.get('summary', ''), d['diff_stat'].split('|')[0].strip().split('/')[-1], valid, caught, missed, first, d.get('needs', '')))
out = ['# Seeded property-breaking changes and which checks catch them', '',
       'Each directory `/verif/seeded/<id>/` holds `patch.diff` (apply with `git -C /repo apply`), `demo.py` (fails with the change, passes',
       'without), `meta.json` (what was run) and the authoring sub-agent\'s notes. Every change was written by a fresh sub-agent that saw only the',
       'property text and a scratch worktree; it was kept only after I confirmed in that worktree that pacti\'s suite still passes (144) with it,',
       'that the demo fails with it and passes without it. "caught by" = quick tier of that check exits 1 with a VIOLATION line on the changed tree.', '',
       '| id | file | suite green + demo confirmed | caught by (quick) | run but silent | first violation reported |', '|---|---|---|---|---|---|']
for r in rows:
    out.append('| %s | %s | %s | %s | %s | %s |' % (r[0], r[2], 'yes' if r[3] else 'NO', ', '.join(r[4]) or '-', ', '.join(r[5]) or '-', r[6].replace('|', '/')[:110]))
open('/verif/MUTATIONS.md', 'w').write('\n'.join(out) + '\n')
print('\n'.join(out[-len(rows):]))
